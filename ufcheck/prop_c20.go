package main

// C20 — proxy HTML injection inserts one tag and preserves every original byte.

import (
	"fmt"
	"go/token"
	"go/types"
	"os"
	"strings"

	"golang.org/x/tools/go/ssa"
)

func init() {
	register(&PropDef{
		ID:  "C20",
		Run: runC20,
		Explanation: "Static decision of the structural clauses of C20. R1 (partition): the re-encoded text is either the decoded body itself (no marker) or body[:i] + tag + body[i:] with the same body and the same i on both sides, " +
			"i being the finder applied to that very body, and the tag a single value that does not contain the body. R2: bytes -> decompress -> Latin-1 decode -> splice -> Latin-1 encode, nothing else. " +
			"R3: on the success exit the response body, the declared length and the removal of Content-Encoding all refer to the final encoded bytes. R4: the finder scans i = 0,1,... while i < min(window, len(body)) " +
			"(loop condition evaluated on constants), returns the first i at which one of the four documented markers matches the unmodified body, and -1 after exhaustion; the matcher is bounds-guarded and compares " +
			"body[i:i+len(marker)] case-insensitively. R6: the inspected prefix is 16 KiB of the body; today the window bounds byte offsets of the Latin-1-decoded text, in which bytes >= 0x80 take two bytes: recorded finding F22. R4 expands a search over a small table of markers. R3 is judged on the final values in effect on each success path (helpers, several call sites); where the finder said -1 the decompressed bytes may be served as they are (ISO 8859-1 is a bijection on bytes).",
		Trusted: []string{"proxyutil.DecodeLatin1/EncodeLatin1 are inverse bijections between bytes and Latin-1 text; ReadDecompressedBody undoes Content-Encoding (library)"},
	})
}

func runC20(c *Ctx) {
	c.Rule("C20.R1", "LIN", "splice is a partition of the decoded body at the finder's index; tag inserted once", 1)
	c.Rule("C20.R2", "WIRE", "decode/encode pairing around the splice", 1)
	c.Rule("C20.R3", "WIRE", "body reader, Content-Length and Content-Encoding removal use the final bytes", 3)
	c.Rule("C20.R4", "LIN/PDT/TBL", "finder: ascending first-hit scan bounded by min(window, len); documented markers; bounds-guarded case-folding matcher on the unmodified body", 2)

	a := &anchors{c: c, rule: "C20.R1"}
	fh := a.method("proxy", "Server", "filterHTML")
	if a.bad {
		return
	}
	// roles: finder = func(string) int called by filterHTML; matcher = func(string,string,int) bool called by the finder
	var finder, matcher, inject *ssa.Function
	eachInstrG(c.P, fh, func(_ *ssa.BasicBlock, in ssa.Instruction) {
		if ci, ok := in.(ssa.CallInstruction); ok {
			if cal := ci.Common().StaticCallee(); cal != nil && c.P.IsLibFunc(cal) && !c.P.IsNewHelper(cal) {
				sig := cal.Signature
				if sig.Recv() == nil && sig.Params().Len() == 1 && typeStr(sig.Params().At(0).Type()) == "string" && sig.Results().Len() == 1 && typeStr(sig.Results().At(0).Type()) == "int" {
					finder = cal
				}
				if sig.Recv() != nil && sig.Results().Len() == 1 && typeStr(sig.Results().At(0).Type()) == "string" {
					inject = cal
				}
			}
		}
	})
	if finder == nil || inject == nil {
		c.Fail("C20.R1", "anchor:finder/tag builder", fh.Pos(), fmt.Sprintf("unresolved anchor by role (finder=%v tag builder=%v)", finder != nil, inject != nil))
		return
	}
	eachInstrG(c.P, finder, func(_ *ssa.BasicBlock, in ssa.Instruction) {
		if ci, ok := in.(ssa.CallInstruction); ok {
			if cal := ci.Common().StaticCallee(); cal != nil && c.P.IsLibFunc(cal) && !c.P.IsNewHelper(cal) && cal.Signature.Params().Len() == 3 {
				matcher = cal
			}
		}
	})
	c.Fn(FuncName(finder), FuncName(inject))

	// ---------- R1..R3 ----------
	{
		g := NewGate(c.P)
		g.Inline = inlineOnly()
		g.Pure[FuncName(finder)] = true
		s := g.Eval(fh)
		u := g.U
		var readC, decC, encC, injC *Effect
		for i := range s.Effects {
			ef := &s.Effects[i]
			if ef.Kind != "call" {
				continue
			}
			switch {
			case strings.HasSuffix(ef.Call.Aux, "proxyutil.ReadDecompressedBody"):
				readC = ef
			case strings.HasSuffix(ef.Call.Aux, "proxyutil.DecodeLatin1"):
				decC = ef
			case strings.HasSuffix(ef.Call.Aux, "proxyutil.EncodeLatin1"):
				encC = ef
			case ef.Call.Aux == calleeName(inject):
				injC = ef
			}
		}
		if readC == nil || decC == nil || encC == nil {
			c.Fail("C20.R2", "filterHTML: codec calls", fh.Pos(), "UNDECIDED: ReadDecompressedBody / DecodeLatin1 / EncodeLatin1 not all called")
			return
		}
		raw := u.mk("extract", "0", nil, readC.Call)
		body := u.mk("extract", "0", nil, decC.Call)
		// R2: decode reads the raw bytes
		decArg := decC.Call.Args[0]
		okDec := u.Mentions(decArg, func(x *E) bool { return x.key == raw.key }) && strings.Contains(decArg.key, "bytes.NewReader")
		c.Check(okDec, "C20.R2", "filterHTML: Latin-1 decode of the decompressed bytes, Latin-1 encode of the spliced text", decC.Pos,
			"DecodeLatin1(bytes.NewReader(ReadDecompressedBody(res))) ... EncodeLatin1(spliced)", "the text that is spliced is not the Latin-1 decoding of the decompressed body: "+clip(u.Show(decArg), 120))
		// R6: the 16 KiB window is a window of the body.  The finder is handed the decoded text, a Go
		// string in which every body byte >= 0x80 takes two bytes; a bound on byte offsets of that
		// string covers fewer than 16 KiB of such a body.  Accepted: the finder counts characters
		// (ranges over the string, or counts runes), or is applied to the raw bytes.
		{
			c.Rule("C20.R6", "WIRE", "the inspected prefix is 16 KiB of the body, whatever its bytes", 1)
			onDecoded := false
			for _, ef := range s.Effects {
				_ = ef
			}
			for _, e := range u.tab {
				if e.Op == "call" && e.Aux == calleeName(finder) && len(e.Args) >= 1 && e.Args[0].key == body.key {
					onDecoded = true
				}
			}
			countsRunes := false
			eachInstrG(c.P, finder, func(_ *ssa.BasicBlock, in ssa.Instruction) {
				switch x := in.(type) {
				case *ssa.Range:
					if isStringT(x.X.Type()) {
						countsRunes = true
					}
				case *ssa.Call:
					if cal := x.Call.StaticCallee(); cal != nil && strings.HasPrefix(calleeName(cal), "unicode/utf8.RuneCount") {
						countsRunes = true
					}
				}
			})
			c.Check(!onDecoded || countsRunes, "C20.R6", "finder: window measured on the body", finder.Pos(), "characters of the decoded text (= bytes of the body) are counted, or the raw bytes are searched",
				"the window bounds byte offsets of the Latin-1-decoded text, in which every body byte >= 0x80 takes two bytes: a marker within the first 16 KiB of a body with such bytes in front of it is not found and the page gets no content script")
		}
		// R1
		enc := u.Specialize(encC.Call.Args[0], encC.Cond)
		idx := u.Call(calleeName(finder), types.Typ[types.Int], body)
		bad := ""
		nSplice := 0
		for leaf, cond := range u.Leaves(enc) {
			if leaf.key == body.key {
				// unchanged exactly when the finder says -1
				want := u.ToBool(u.Eq(idx, u.Int(-1)))
				if u.bdd.And(encC.Cond, u.bdd.Xor(cond, want)) != False && !u.bdd.Implies(u.bdd.And(encC.Cond, cond), want) {
					bad = "the body is left unchanged under a condition other than 'no marker found'"
				}
				continue
			}
			nSplice++
			// leaf = (body[:i] + tag) + body[i:]
			ok := leaf.Op == "bin" && leaf.Aux == "+" && leaf.Args[0].Op == "bin" && leaf.Args[0].Aux == "+"
			if !ok {
				bad = "the modified text is not head + tag + tail: " + clip(u.Show(leaf), 140)
				continue
			}
			head, tag, tail := leaf.Args[0].Args[0], leaf.Args[0].Args[1], leaf.Args[1]
			switch {
			case head.Op != "slice" || tail.Op != "slice":
				bad = "head/tail are not slices of the body: " + clip(u.Show(leaf), 300)
			case head.Args[0].key != body.key || tail.Args[0].key != body.key:
				bad = "head and tail are not taken from the decoded body (the index was computed on one string and applied to another): head of " + clip(u.Show(head.Args[0]), 70) + ", tail of " + clip(u.Show(tail.Args[0]), 70)
			case head.Args[1] != nil && !isIntConst(head.Args[1], 0) || tail.Args[2] != nil:
				bad = "head does not start at 0 or tail does not run to the end"
			case head.Args[2] == nil || tail.Args[1] == nil || head.Args[2] != tail.Args[1]:
				bad = "head ends and tail starts at different offsets: a byte is lost or duplicated"
			case head.Args[2].key != idx.key:
				bad = "the splice offset is not the finder applied to the decoded body: " + clip(u.Show(head.Args[2]), 120) + " (an index found in another string, e.g. the raw bytes, is off by the number of bytes >= 0x80 before the marker)"
			case u.Mentions(tag, func(x *E) bool { return x.key == body.key }):
				bad = "the inserted tag depends on the body"
			case injC == nil || tag != injC.Call:
				bad = "the inserted text is not the single result of the tag builder"
			}
		}
		if nSplice != 1 && bad == "" {
			bad = fmt.Sprintf("expected exactly one spliced form, found %d", nSplice)
		}
		c.Check(bad == "", "C20.R1", "filterHTML: new text = body[:i] + tag + body[i:], i = finder(body); unchanged iff i == -1", encC.Pos, "partition of the decoded body at one index; tag inserted once", bad)

		// R3
		out := u.mk("extract", "0", nil, encC.Call)
		var okBody, okLen, okDel bool
		var succ Ref = False
		for _, r := range s.Rets {
			for leaf, cond := range u.Leaves(r.Vals[0]) {
				cc := u.bdd.And(r.Cond, cond)
				// nil literally, or an error variable the path condition knows to be nil
				if leaf.IsNil() || (cc != False && leaf.Op != "mkiface" && u.bdd.Implies(cc, u.ToBool(u.Eq(leaf, u.mk("nil", "", nil))))) {
					succ = u.bdd.Or(succ, cc)
				}
			}
		}
		// The final bytes: the encoded text, or - where the finder said -1, so that the text is the
		// decoded body unchanged - the decompressed bytes themselves (ISO 8859-1 maps the 256 byte
		// values one-to-one to U+0000..U+00FF, so encoding the decoding of b gives b back).
		noMarker := u.ToBool(u.Eq(idx, u.Int(-1)))
		finalBytes := func(x *E, cond Ref) bool {
			care := u.bdd.And(succ, cond)
			if x.key == out.key || u.Specialize(x, care).key == u.Specialize(out, care).key {
				return true
			}
			// the same encode call with its argument simplified under the path condition
			if x.Op == "extract" && x.Aux == "0" && len(x.Args) == 1 && x.Args[0].Op == "call" && x.Args[0].Aux == encC.Call.Aux &&
				u.Specialize(x.Args[0].Args[0], care).key == u.Specialize(encC.Call.Args[0], care).key {
				return true
			}
			return x.key == raw.key && u.bdd.Implies(u.bdd.And(succ, cond), noMarker)
		}
		readerOf := func(v *E) *E {
			var r *E
			u.Mentions(v, func(x *E) bool {
				if x.Op == "call" && x.Aux == "bytes.NewReader" && len(x.Args) == 1 && r == nil {
					r = x.Args[0]
				}
				return false
			})
			return r
		}
		unset := u.mk("sym", "C20.unset", nil)
		bodyV, lenV := unset, unset
		var delC Ref = False
		for _, ef := range s.Effects {
			switch ef.Kind {
			case "store":
				if ef.Addr.Op == "faddr" && ef.Addr.Aux == "Body" {
					bodyV = u.ITE(ef.Cond, ef.Val, bodyV)
				}
				if ef.Addr.Op == "faddr" && ef.Addr.Aux == "ContentLength" {
					lenV = u.ITE(ef.Cond, ef.Val, lenV)
				}
			case "call":
				if strings.HasSuffix(ef.Call.Aux, "net/http.Header).Del") && isStr(ef.Call.Args[1], "Content-Encoding") {
					delC = u.bdd.Or(delC, ef.Cond)
				}
			}
		}
		okDel = u.bdd.Implies(succ, delC)
		// per success path the reader and the length are over the same final bytes
		type fin struct {
			x    *E
			cond Ref
		}
		var bodies []fin
		if bodyV != unset {
			okBody = true
			for leaf, cond := range u.Leaves(bodyV) {
				if u.bdd.And(succ, cond) == False {
					continue
				}
				x := readerOf(leaf)
				if x == nil || !finalBytes(x, cond) {
					okBody = false
					continue
				}
				bodies = append(bodies, fin{x, cond})
			}
			okBody = okBody && len(bodies) > 0
		}
		if lenV != unset && okBody {
			okLen = true
			n := 0
			for leaf, cond := range u.Leaves(lenV) {
				if u.bdd.And(succ, cond) == False {
					continue
				}
				n++
				for _, b := range bodies {
					if u.bdd.And(succ, u.bdd.And(cond, b.cond)) == False {
						continue
					}
					care := u.bdd.And(succ, u.bdd.And(cond, b.cond))
					if !(leaf.Op == "convert" && (leaf.Args[0].key == u.Len(b.x).key || u.Specialize(leaf.Args[0], care).key == u.Specialize(u.Len(b.x), care).key)) {
						okLen = false
					}
				}
			}
			okLen = okLen && n > 0
		}
		c.Check(okBody, "C20.R3", "filterHTML: response body reads the final encoded bytes", fh.Pos(), "res.Body = NopCloser(bytes.NewReader(encoded))", "the response body is not a reader over the final encoded bytes")
		c.Check(okLen, "C20.R3", "filterHTML: Content-Length = len(final encoded bytes)", fh.Pos(), "res.ContentLength = int64(len(encoded))", "the declared length is not the length of the final encoded bytes")
		c.Check(okDel, "C20.R3", "filterHTML: Content-Encoding removed on success", fh.Pos(), "Header.Del(\"Content-Encoding\") on every success path", "the body is served decompressed but Content-Encoding is kept")
	}

	// ---------- R5 tag builder ----------
	{
		c.Rule("C20.R5", "EFF", "the tag builder renders into a buffer of its own: one tag per call, independent of earlier calls", 1)
		bad := ""
		nExec := 0
		eachInstr(inject, func(_ *ssa.BasicBlock, in ssa.Instruction) {
			cl, ok := in.(*ssa.Call)
			if !ok || cl.Call.StaticCallee() == nil {
				return
			}
			n := calleeName(cl.Call.StaticCallee())
			if strings.HasSuffix(n, "template.Template).Execute") {
				nExec++
				// the writer must be a fresh local buffer
				w := cl.Call.Args[1]
				if mi, ok := w.(*ssa.MakeInterface); ok {
					w = mi.X
				}
				if _, isAlloc := w.(*ssa.Alloc); !isAlloc {
					bad = c.P.Pos(cl.Pos()) + ": the tag is rendered into a buffer that is not local to the call (" + w.String() + "): text left by an earlier call (another page) is returned again, so a page gets several tags"
				}
			}
			if strings.Contains(n, "sync.Pool") {
				bad = c.P.Pos(cl.Pos()) + ": the tag builder takes its buffer from a pool; without a Reset the previous pages' tags are still in it"
			}
		})
		if nExec != 1 && bad == "" {
			bad = fmt.Sprintf("UNDECIDED: expected one template execution, found %d", nExec)
		}
		c.Check(bad == "", "C20.R5", shortFn(inject)+": renders into a fresh local buffer", inject.Pos(), "template.Execute(&localBuffer, params)", bad)
	}

	// ---------- R4 finder ----------
	// The finder is evaluated with everything below it expanded (the matcher, whatever its
	// parameter list; marker tables in package-level variables are read as constants and loops
	// over them unrolled), and its decision is compared with the documented one.
	_ = matcher
	{
		g := NewGate(c.P)
		g.Inline = nil
		g.Unroll, g.ConstTables = true, true
		s := g.Eval(finder)
		u := g.U
		body := g.ParamExprs(finder)[0]
		win := int64(16 * 1024)
		if v, ok := a.constInt("proxy", "headBufferSize"); ok {
			win = v
		}
		bad := ""
		var l *Loop
		var ct *Counted
		nScan := 0
		for _, l2 := range loopsOf(finder) {
			if ct2 := countedLoop(u, s, l2); ct2 != nil && ct2.Idx != nil && ct2.Idx.Op == "loopphi" {
				l, ct = l2, ct2
				nScan++
			}
		}
		if nScan != 1 {
			bad = fmt.Sprintf("UNDECIDED: expected one scan loop over the offsets, found %d", nScan)
		} else {
			// pos: the offset at which the markers are tested in an iteration.  Plain scan: the loop
			// index itself, stepping by one.  Skipping scan: h = i + Index(body[i:bound], c) for the one
			// byte c every marker starts with, the index continuing at h + 1: the offsets passed over
			// hold no c, so no marker can match there (library contract of Index; case folding of c by
			// FoldAxioms), and the offsets with a c are visited in ascending order.
			pos := ct.Idx
			skipMiss := False
			if v, ok := ct.Init.IntVal(); !ok || v != 0 || !ct.StepOK || ct.Step != 1 {
				okSkip := false
				if ok && v == 0 {
					for _, r := range s.Rets {
						h := r.Vals[0]
						if r.Cond == False || h.Op != "bin" || h.Aux != "+" {
							continue
						}
						var nx *E
						for _, a := range h.Args {
							if a.Op == "call" && a.Aux == "strings.Index" && len(a.Args) == 2 {
								nx = a
							}
						}
						if nx == nil {
							continue
						}
						c0, isC := nx.Args[1].StrVal()
						hay := nx.Args[0]
						// the haystack is body[i:bound] with the loop's own bound
						var bound *E
						for _, at := range u.AtomsOf(ct.Cont) {
							if at.Op == "lt" && at.Args[0] == ct.Idx {
								bound = at.Args[1]
							}
						}
						okHay := bound != nil
						for hl, hc := range u.Leaves(hay) {
							if hc == False {
								continue
							}
							hi := u.Len(body)
							if hl.Op == "slice" && hl.Args[2] != nil {
								hi = hl.Args[2]
							}
							if !(hl.Op == "slice" && hl.Args[0] == body && hl.Args[1] == ct.Idx && bound != nil && u.Specialize(bound, hc) == hi) {
								okHay = false
							}
						}
						okH := (h.Args[0] == ct.Idx && h.Args[1] == nx) || (h.Args[1] == ct.Idx && h.Args[0] == nx)
						// the index continues right after the tested offset
						okNext := false
						for i, p := range l.Header.Preds {
							if l.Blocks[p] {
								if os.Getenv("UFCHECK_DEBUG_C20") != "" {
									fmt.Println("C20 next value:", u.Show(s.Env[ct.Phi.Edges[i]]), "h:", u.Show(h))
								}
								if nv := s.Env[ct.Phi.Edges[i]]; nv != nil {
									L := NewLin(u)
									want := L.linearize(u.Bin(token.ADD, h, u.Int(1), types.Typ[types.Int]))
									got := L.linearize(nv)
									if L.entails(got, want, 0) && L.entails(want, got, 0) {
										okNext = true
									}
								}
							}
						}
						okMarkers := isC && len(c0) == 1 && c0[0] < 0x80 && !(c0[0] >= 'a' && c0[0] <= 'z') && !(c0[0] >= 'A' && c0[0] <= 'Z')
						for _, m := range []string{"</head", "<link", "<script", "<style"} {
							if !isC || len(c0) != 1 || m[0] != c0[0] {
								okMarkers = false
							}
						}
						if os.Getenv("UFCHECK_DEBUG_C20") != "" {
							fmt.Println("C20 skip:", okHay, okH, okNext, okMarkers, "bound", u.Show(bound))
						}
						if okHay && okH && okNext && okMarkers {
							okSkip = true
							pos = h
							skipMiss = u.ToBool(u.Lt(nx, u.Int(0)))
						}
					}
				}
				if !okSkip {
					bad = "the scan does not go 0,1,2,... (a later marker could be returned first, or offsets skipped)"
				}
			}
			for _, L := range []int64{0, 1, 9, win - 1, win, win + 1, 3 * win} {
				for _, i := range []int64{0, 1, L - 1, L, win - 1, win, win + 1} {
					if i < 0 || bad != "" {
						continue
					}
					val, ok, res := foldCond(u, ct.Cont, map[string]*E{ct.Idx.key: u.Int(i), u.Len(body).key: u.Int(L)})
					c.Paths++
					want := i < L && i < win
					if !ok {
						bad = "UNDECIDED: loop bound does not fold on constants: " + res
					} else if val != want {
						bad = fmt.Sprintf("for a body of %d bytes the scan %s offset %d; documented window: offsets below min(%d, len(body))", L, map[bool]string{true: "inspects", false: "does not inspect"}[val], i, win)
					}
				}
			}
			// a hit at offset i: some documented marker m fits into the body at i (i+len(m) <= len(body),
			// measured on the whole body, not on the window) and equals body[i:i+len(m)] ignoring case
			intT, strT, boolT := types.Typ[types.Int], types.Typ[types.String], types.Typ[types.Bool]
			wantHit := False
			for _, m := range []string{"</head", "<link", "<script", "<style"} {
				end := u.Bin(token.ADD, pos, u.Int(int64(len(m))), intT)
				fits := u.bdd.Not(u.ToBool(u.Lt(u.Len(body), end)))
				win1 := u.Slice(body, pos, end, nil, strT)
				eq := u.bdd.Or(u.ToBool(u.LibCall("strings.EqualFold", boolT, win1, u.Str(m))), False)
				if alt := u.LibCall("strings.EqualFold", boolT, u.Str(m), win1); u.atomIx[alt.key] != 0 || alt.Op == "bool" {
					// the comparison written the other way round
					if _, known := u.atomIx[alt.key]; known {
						eq = u.ToBool(alt)
					}
				}
				wantHit = u.bdd.Or(wantHit, u.bdd.And(fits, eq))
			}
			body0 := u.bdd.And(s.RC[l.Header], ct.Cont)
			gotHit, gotMiss := False, False
			other := ""
			for _, r := range s.Rets {
				switch {
				case r.Cond == False:
				case r.Vals[0] == pos:
					gotHit = u.bdd.Or(gotHit, r.Cond)
				case isIntConst(r.Vals[0], -1):
					gotMiss = u.bdd.Or(gotMiss, r.Cond)
				default:
					other = clip(u.Show(r.Vals[0]), 80)
				}
			}
			if bad == "" {
				hitDiff := u.bdd.Xor(gotHit, u.bdd.And(u.bdd.And(body0, u.bdd.Not(skipMiss)), wantHit))
				hitOK := hitDiff == False
				if !hitOK {
					// equal up to arithmetic and "EqualFold(X[i:..], \"<...\") implies X[i] == '<'" (a pre-test on the first byte)
					hitOK, _ = theoryEmpty(u, hitDiff, u.FoldAxioms(hitDiff))
				}
				switch {
				case other != "":
					bad = "the finder returns " + other + ", documented: the first offset with a match, or -1"
				case !hitOK:
					bad = "the finder does not return an offset exactly when one of </head, <link, <style, <script matches there (case-insensitively, within the whole body): differs when " + clip(u.ShowBool(hitDiff), 240)
				case !u.bdd.Implies(gotMiss, u.bdd.Or(u.bdd.Not(ct.Cont), skipMiss)) || gotMiss == False:
					bad = "the finder does not return -1 exactly after the window is exhausted"
				}
			}
		}
		c.Check(bad == "", "C20.R4", shortFn(finder)+": ascending first-hit scan over min(window, len(body)) with the documented markers", finder.Pos(), "loop bound evaluated on 49 (length, offset) pairs; hit condition equals the documented one for the 4 markers", bad)
		c.Check(bad == "", "C20.R4", shortFn(finder)+": bounds-guarded, case-insensitive comparison of body[i:i+len(marker)]", finder.Pos(), "decision function equals the documented one", bad)
	}
}
