package main

// IDX helpers: lookup-table contracts (soundness: hits re-validated by the
// semantic predicate; completeness: counted loops enumerate every window /
// label), shared by C01, C02, C15, C18, C19.

import (
	"fmt"
	"go/token"
	"go/types"
	"strings"

	"golang.org/x/tools/go/ssa"
)

// retReaching returns the SSA values that flow into a return of fn through
// φ-nodes and the first argument of append.
func retReaching(fn *ssa.Function, resultIdx int) map[ssa.Value]bool {
	reach := map[ssa.Value]bool{}
	var mark func(v ssa.Value)
	mark = func(v ssa.Value) {
		if v == nil || reach[v] {
			return
		}
		reach[v] = true
		switch x := v.(type) {
		case *ssa.Phi:
			for _, e := range x.Edges {
				mark(e)
			}
		case *ssa.Call:
			if b, ok := x.Call.Value.(*ssa.Builtin); ok && b.Name() == "append" {
				mark(x.Call.Args[0])
			}
		case *ssa.UnOp:
			// named results are spilled to allocs when the function defers
			if x.Op == token.MUL {
				if al, ok := x.X.(*ssa.Alloc); ok {
					if rs := al.Referrers(); rs != nil {
						for _, r := range *rs {
							if st, ok := r.(*ssa.Store); ok && st.Addr == ssa.Value(al) {
								mark(st.Val)
							}
						}
					}
				}
			}
		}
	}
	eachInstr(fn, func(_ *ssa.BasicBlock, in ssa.Instruction) {
		if r, ok := in.(*ssa.Return); ok && resultIdx < len(r.Results) {
			mark(r.Results[resultIdx])
		}
	})
	return reach
}

// Emission is an append of single elements whose result reaches a return.
type Emission struct {
	Call  *ssa.Call
	Elems []*E
	RC    Ref
	Act   *Summary // activation the append was evaluated in (nil: the evaluated function itself)
}

// emissionsOf lists the emissions of fn (result index resultIdx) under the
// gated summary s.  Appends that reach the result but cannot be resolved to
// single elements are returned with Elems == nil.
func emissionsOf(fn *ssa.Function, s *Summary, resultIdx int) []Emission {
	reach := retReaching(fn, resultIdx)
	var out []Emission
	eachInstr(fn, func(b *ssa.BasicBlock, in ssa.Instruction) {
		cl, ok := in.(*ssa.Call)
		if !ok || !reach[cl] {
			return
		}
		if bi, ok := cl.Call.Value.(*ssa.Builtin); !ok || bi.Name() != "append" {
			return
		}
		e := s.Env[cl]
		em := Emission{Call: cl, RC: s.RC[b]}
		if e != nil && e.Op == "append" && e.Aux == "elems" {
			em.Elems = e.Args[1:]
		}
		out = append(out, em)
	})
	return out
}

// emissionsG is emissionsOf across activations: the appends that contribute elements to result
// resultIdx of the evaluated function, including those made by helpers outside the vocabulary
// (inlined activations).  The reach condition of an emission in an inlined activation is already
// absolute (the activation is evaluated under its call site's condition).
func emissionsG(g *Gate, s *Summary, resultIdx int) []Emission {
	var out []Emission
	seen := map[*ssa.Call]map[*Summary]bool{}
	for _, b := range s.Fn.Blocks {
		r, ok := b.Instrs[len(b.Instrs)-1].(*ssa.Return)
		if !ok || resultIdx >= len(r.Results) {
			continue
		}
		ems, _ := traceAppends(g, AV{s, r.Results[resultIdx]})
		for _, em := range ems {
			if seen[em.Call] == nil {
				seen[em.Call] = map[*Summary]bool{}
			}
			if seen[em.Call][em.Act] {
				continue
			}
			seen[em.Call][em.Act] = true
			out = append(out, Emission{Call: em.Call, Elems: em.Elems, RC: em.RC, Act: em.Act})
		}
	}
	// results delivered through a pointer parameter: appends stored into a slice field of the
	// struct a parameter points to
	params := map[*E]bool{}
	for _, p := range g.ParamExprs(s.Fn) {
		if p != nil && p.Typ != nil {
			if _, isPtr := p.Typ.Underlying().(*types.Pointer); isPtr {
				params[p] = true
			}
		}
	}
	if resultIdx == 0 && len(params) > 0 {
		for _, ef := range s.Effects {
			if ef.Kind != "store" || ef.Addr.Op != "faddr" || len(ef.Addr.Args) == 0 || !params[ef.Addr.Args[0]] || ef.Act == nil {
				continue
			}
			st, ok := ef.Ins.(*ssa.Store)
			if !ok {
				continue
			}
			if _, isSlice := st.Val.Type().Underlying().(*types.Slice); !isSlice {
				continue
			}
			ems, _ := traceAppends(g, AV{ef.Act, st.Val})
			for _, em := range ems {
				if em.Call == nil {
					continue
				}
				if seen[em.Call] == nil {
					seen[em.Call] = map[*Summary]bool{}
				}
				if seen[em.Call][em.Act] {
					continue
				}
				seen[em.Call][em.Act] = true
				out = append(out, Emission{Call: em.Call, Elems: em.Elems, RC: em.RC, Act: em.Act})
			}
		}
	}
	return out
}

// stringParamIndex: position (receiver included) of the first string parameter
// of fn; 1 if there is none.
func stringParamIndex(fn *ssa.Function) int {
	for i, p := range fn.Params {
		if b, ok := p.Type().Underlying().(*types.Basic); ok && b.Kind() == types.String {
			return i
		}
	}
	return 1
}

// guardedBy checks that every emission of fn is dominated (in the gated
// sense: reach condition implies) by a true result of pred(elem, query),
// where query is the expression of parameter queryParam of fn.
func guardedBy(c *Ctx, rule string, fn, pred *ssa.Function, queryParam int, what string) int {
	g := NewGate(c.P)
	g.Inline = inlineOnly()
	s := g.Eval(fn)
	u := g.U
	c.Fn(FuncName(fn))
	q := g.ParamExprs(fn)[queryParam]
	n := 0
	for _, em := range emissionsG(g, s, 0) {
		key := shortFn(fn) + ": emitted element re-validated by " + shortFn(pred)
		n++
		if em.Elems == nil {
			// spread append: accepted only if it appends the result of another guarded function (checked by the caller)
			c.Fail(rule, key, em.Call.Pos(), "UNDECIDED: an append that reaches the result is not an append of single elements")
			continue
		}
		for _, el := range em.Elems {
			for el.Op == "mkiface" {
				el = el.Args[0]
			}
			ok := false
			for _, ef := range s.Effects {
				if ef.Kind == "call" && ef.Call.Aux == calleeName(pred) && len(ef.Call.Args) >= 2 && ef.Call.Args[0] == el && ef.Call.Args[1] == q {
					if u.bdd.Implies(em.RC, u.ToBool(ef.Call)) {
						ok = true
					}
				}
			}
			c.Check(ok, rule, key, em.Call.Pos(), "reach condition of the append implies "+shortFn(pred)+"(element, "+what+") == true",
				"an element can be appended to the result without "+shortFn(pred)+"(element, "+what+") having returned true: a hash/bucket collision or a stale index entry yields a non-matching rule")
		}
	}
	return n
}

// Counted describes a loop controlled by an integer φ in its header.
type Counted struct {
	Phi    *ssa.Phi
	Idx    *E // the φ's symbol
	Init   *E // value on loop entry
	Step   int64
	StepOK bool
	Cont   Ref // continue condition
}

// countedLoop recognises a loop whose header condition compares an integer φ
// of the header (or φ+1 for range loops) with a bound.
func countedLoop(u *U, s *Summary, l *Loop) *Counted {
	h := l.Header
	iff, ok := h.Instrs[len(h.Instrs)-1].(*ssa.If)
	if !ok {
		return nil
	}
	cmp, ok := iff.Cond.(*ssa.BinOp)
	if !ok {
		return nil
	}
	var ph *ssa.Phi
	for _, op := range []ssa.Value{cmp.X, cmp.Y} {
		if p, ok := op.(*ssa.Phi); ok && p.Block() == h {
			ph = p
		}
	}
	if ph == nil {
		// i+K <= n, n-i >= K, ...: the φ one arithmetic step below the comparison
		for _, op := range []ssa.Value{cmp.X, cmp.Y} {
			if b, ok := op.(*ssa.BinOp); ok && (b.Op == token.ADD || b.Op == token.SUB) {
				for _, o2 := range []ssa.Value{b.X, b.Y} {
					if p, ok := o2.(*ssa.Phi); ok && p.Block() == h && isIntType(p.Type()) {
						ph = p
					}
				}
			}
		}
	}
	if ph == nil {
		return nil
	}
	ct := &Counted{Phi: ph, Idx: s.Env[ph], Cont: contCond(u, s, l), StepOK: true}
	first := true
	for i, p := range h.Preds {
		e := ph.Edges[i]
		if l.Blocks[p] {
			b, ok := e.(*ssa.BinOp)
			var st int64
			if ok && b.X == ssa.Value(ph) && b.Op == token.ADD {
				if cv, isC := b.Y.(*ssa.Const); isC && cv.Value != nil {
					st = cv.Int64()
				} else {
					ct.StepOK = false
				}
			} else if ok && b.X == ssa.Value(ph) && b.Op == token.SUB {
				if cv, isC := b.Y.(*ssa.Const); isC && cv.Value != nil {
					st = -cv.Int64()
				} else {
					ct.StepOK = false
				}
			} else {
				ct.StepOK = false
			}
			if first {
				ct.Step = st
				first = false
			} else if ct.Step != st {
				ct.StepOK = false
			}
		} else {
			ct.Init = s.Env[e]
			if ct.Init == nil {
				// constant
				if cv, ok := e.(*ssa.Const); ok && cv.Value != nil {
					ct.Init = u.ConstVal(cv.Value, cv.Type())
				}
			}
		}
	}
	return ct
}

// windowsComplete checks that a counted loop visits exactly the window starts
// i with 0 <= i and i+K <= len(S): init folds to 0, step is +1 and the
// continue condition equals i+K <= L for all small L and i (evaluated on
// constants inside the checker).
func windowsComplete(u *U, ct *Counted, lenExpr *E, K int64) string {
	return windowsCompleteAt(u, ct, lenExpr, K, 0)
}

// windowsCompleteAt: the window of iteration i starts at i+d (d = 0 for the
// usual "for i := 0; i+K <= n", d = -K for "for end := K; end <= n").
func windowsCompleteAt(u *U, ct *Counted, lenExpr *E, K, d int64) string {
	if ct == nil {
		return "UNDECIDED: not a counted loop"
	}
	if v, ok := ct.Init.IntVal(); !ok || v+d != 0 {
		return "the scan does not start at offset 0 (start: " + u.Show(ct.Init) + ")"
	}
	if !ct.StepOK || ct.Step != 1 {
		return fmt.Sprintf("the scan does not advance by exactly one byte (step %d, uniform=%v)", ct.Step, ct.StepOK)
	}
	for L := int64(0); L <= 2*K+2; L++ {
		for st := int64(0); st <= L+1; st++ {
			sub := map[string]*E{ct.Idx.key: u.Int(st - d), lenExpr.key: u.Int(L)}
			val, ok, res := foldCond(u, ct.Cont, sub)
			if !ok {
				return "UNDECIDED: loop condition does not fold on constants: " + res
			}
			want := st+K <= L
			if val != want {
				return fmt.Sprintf("for a string of length %d the loop %s the window starting at %d (width %d): the last/first windows are not probed exactly", L, map[bool]string{true: "visits", false: "skips"}[val], st, K)
			}
		}
	}
	return ""
}

// constDiff evaluates (b - a) for two integer expressions that differ by a
// constant for every value of the symbol idx.
func constDiff(u *U, a, b, idx *E) (int64, bool) {
	var d int64
	for i, v := range []int64{0, 3, 7} {
		sub := map[string]*E{idx.key: u.Int(v)}
		av, ok1 := u.Subst(a, sub).IntVal()
		bv, ok2 := u.Subst(b, sub).IntVal()
		if !ok1 || !ok2 {
			return 0, false
		}
		if i == 0 {
			d = bv - av
		} else if bv-av != d {
			return 0, false
		}
	}
	return d, true
}

// implementsIface lists the named types of package pkg (short) whose pointer
// or value type implements the interface type.
func implementers(p *Prog, iface *types.Interface) []*types.Named {
	var out []*types.Named
	for _, s := range libPkgs {
		pk := p.Pkgs[pkgPath(s)]
		sc := pk.Types.Scope()
		for _, n := range sc.Names() {
			tn, ok := sc.Lookup(n).(*types.TypeName)
			if !ok {
				continue
			}
			named, ok := tn.Type().(*types.Named)
			if !ok {
				continue
			}
			if _, isI := named.Underlying().(*types.Interface); isI {
				continue
			}
			if types.Implements(named, iface) || types.Implements(types.NewPointer(named), iface) {
				out = append(out, named)
			}
		}
	}
	return out
}

func methodOf(p *Prog, n *types.Named, name string) *ssa.Function {
	for _, t := range []types.Type{types.NewPointer(n), n} {
		ms := p.SSA.MethodSets.MethodSet(t)
		for i := 0; i < ms.Len(); i++ {
			if ms.At(i).Obj().Name() == name {
				if fn := p.SSA.MethodValue(ms.At(i)); fn != nil && fn.Synthetic == "" {
					return fn
				}
			}
		}
	}
	return nil
}

// fullUnconditionalLoop: the innermost loop of site ranges over the whole
// collection, has no early exit, and site's block executes in every iteration.
func fullUnconditionalLoop(u *U, s *Summary, loops []*Loop, site ssa.Instruction) (ok bool, coll ssa.Value, why string) {
	l := innermostLoop(loops, site.Block())
	if l == nil {
		return false, nil, "not inside a loop"
	}
	ro := rangedOver(l)
	if ro == nil || !ro.Full {
		return false, nil, "the loop is not a complete range over a collection"
	}
	if !onlyExhaustionExit(l) {
		return false, ro.Coll, "the loop has an early exit"
	}
	if s.RCAt(site) != u.bdd.And(s.RC[l.Header], contCond(u, s, l)) {
		return false, ro.Coll, "the operation is conditional inside the loop: " + clip(u.ShowBool(s.RCAt(site)), 160)
	}
	return true, ro.Coll, ""
}

func hasSuffixName(name, suf string) bool { return strings.HasSuffix(name, suf) }

// LoopSum is the summary "some iteration leaves the loop early" of a pure
// search loop (complete range, the only early exits depend on the current
// element).  Any is a fresh atom standing for "exists an element for which the
// early-exit test holds".
type LoopSum struct {
	L     *Loop
	Cont  Ref
	Early Ref // condition of taking an early exit in the current iteration
	Any   Ref
	Coll  *E
	Elem  []*E   // atoms of Early that mention the loop-variant values
	Why   string // non-empty: the loop does not qualify
}

// summariseLoops builds the summaries of all loops of fn.
func summariseLoops(u *U, s *Summary, fn *ssa.Function) []*LoopSum {
	var out []*LoopSum
	for i, l := range loopsOf(fn) {
		ls := &LoopSum{L: l, Cont: contCond(u, s, l)}
		out = append(out, ls)
		ro := rangedOver(l)
		if ro == nil || !ro.Full {
			ls.Why = "not a complete range over a collection"
			continue
		}
		ls.Coll = s.Env[ro.Coll]
		for _, ef := range s.Effects {
			if ef.Ins != nil && l.Blocks[ef.Ins.Block()] && ef.Fn == fn {
				if ef.Kind == "store" && ef.Local {
					continue
				}
				if ef.Kind == "store" || ef.Kind == "mapupdate" || ef.Kind == "call" || ef.Kind == "send" {
					ls.Why = "the loop body has side effects"
				}
			}
		}
		for _, ex := range l.Exits {
			if ex[0] == l.Header {
				continue
			}
			ls.Early = u.bdd.Or(ls.Early, edgeCondOf(u, s, ex[0], ex[1]))
		}
		if ls.Early == False {
			ls.Why = "no early exit"
			continue
		}
		contAtoms := map[int]bool{}
		for _, v := range u.bdd.Support(ls.Cont) {
			contAtoms[v] = true
		}
		for _, v := range u.bdd.Support(ls.Early) {
			at := u.atoms[v]
			if contAtoms[v] {
				continue
			}
			variant := u.Mentions(at, func(x *E) bool {
				return x.Op == "loopphi" || x.Op == "loopval" || x.Op == "rangeval" || x.Op == "rangekey" || (x.Op == "index" && ls.Coll != nil && x.Args[0] == ls.Coll)
			})
			if variant {
				ls.Elem = append(ls.Elem, at)
			}
		}
		ls.Any = u.Atom(u.mk("anyiter", fmt.Sprintf("%s#%d", FuncName(fn), i), types.Typ[types.Bool], ls.Coll))
	}
	return out
}

// Apply rewrites a condition reached inside / after the summarised loops:
// loop-control and per-element atoms are replaced by the loop's Any atom.
func applyLoopSums(u *U, sums []*LoopSum, c Ref) Ref {
	c0 := c
	for _, ls := range sums {
		if ls.Why != "" {
			continue
		}
		strip := func(f Ref) Ref {
			for _, v := range u.bdd.Support(ls.Cont) {
				f = u.bdd.Exists(f, v)
			}
			for _, at := range ls.Elem {
				f = u.bdd.Exists(f, u.atomIx[at.key])
			}
			return f
		}
		switch {
		case u.bdd.Implies(c0, ls.Early):
			c = u.bdd.And(strip(c), ls.Any)
		case u.bdd.Implies(c0, u.bdd.Not(ls.Cont)):
			c = u.bdd.And(strip(c), u.bdd.Not(ls.Any))
		}
	}
	return c
}
