package main

import (
	"fmt"
	"go/ast"
	"go/constant"
	"go/token"
	"sort"
	"strings"
)

// dnsNameTables reads the name tables of the DNS library from its source:
// RcodeToString and TypeToString are composite literals of constant keys and
// string values.  The full form of $dnsrewrite resolves its keywords through
// the reverse maps of these tables.
func dnsNameTables(p *Prog) (rcode, rrtype map[string]int64) {
	rcode, rrtype = map[string]int64{}, map[string]int64{}
	pk := p.Pkgs["github.com/miekg/dns"]
	if pk == nil {
		return
	}
	for _, f := range pk.Syntax {
		for _, d := range f.Decls {
			gd, ok := d.(*ast.GenDecl)
			if !ok || gd.Tok != token.VAR {
				continue
			}
			for _, sp := range gd.Specs {
				vs, ok := sp.(*ast.ValueSpec)
				if !ok || len(vs.Names) != 1 || len(vs.Values) != 1 {
					continue
				}
				var into map[string]int64
				switch vs.Names[0].Name {
				case "RcodeToString":
					into = rcode
				case "TypeToString":
					into = rrtype
				default:
					continue
				}
				cl, ok := vs.Values[0].(*ast.CompositeLit)
				if !ok {
					continue
				}
				for _, el := range cl.Elts {
					kv, ok := el.(*ast.KeyValueExpr)
					if !ok {
						continue
					}
					kt, vt := pk.TypesInfo.Types[kv.Key], pk.TypesInfo.Types[kv.Value]
					if kt.Value == nil || vt.Value == nil || vt.Value.Kind() != constant.String {
						continue
					}
					if k, ok := constant.Int64Val(constant.ToInt(kt.Value)); ok {
						into[constant.StringVal(vt.Value)] = k
					}
				}
			}
		}
	}
	return
}

// checkKeywordTables: a table of the repository that pairs a response-code or
// record-type keyword with a number must give it the number the DNS library's
// name table gives it — the full form of the modifier resolves the same keyword
// through the library, and an exception written in one form has to cancel a
// rewrite written in the other.
func checkKeywordTables(c *Ctx, rule string) {
	c.Rule(rule, "TBL", "keyword tables of the repository agree with the DNS library's name tables (shorthand and full form of $dnsrewrite denote the same codes)", 1)
	rcode, rrtype := dnsNameTables(c.P)
	okTables := len(rcode) >= 15 && len(rrtype) >= 60 && rcode["NXDOMAIN"] == 3 && rcode["REFUSED"] == 5 && rrtype["AAAA"] == 28 && rrtype["HTTPS"] == 65
	c.Check(okTables, rule, "DNS library name tables read from its source", token.NoPos, fmt.Sprintf("%d response codes, %d record types (NXDOMAIN=3, REFUSED=5, AAAA=28, HTTPS=65)", len(rcode), len(rrtype)),
		fmt.Sprintf("UNDECIDED: the tables RcodeToString/TypeToString were not found as constant literals (%d/%d entries)", len(rcode), len(rrtype)))
	if !okTables {
		return
	}
	n := 0
	var paths []string
	for path := range c.P.Pkgs {
		if path == modPath || strings.HasPrefix(path, modPath+"/") {
			paths = append(paths, path)
		}
	}
	sort.Strings(paths)
	for _, path := range paths {
		pk := c.P.Pkgs[path]
		for _, f := range pk.Syntax {
			if strings.HasSuffix(c.P.Fset.Position(f.Pos()).Filename, "_test.go") {
				continue
			}
			ast.Inspect(f, func(nd ast.Node) bool {
				kv, ok := nd.(*ast.KeyValueExpr)
				if !ok {
					return true
				}
				kt, vt := pk.TypesInfo.Types[kv.Key], pk.TypesInfo.Types[kv.Value]
				if kt.Value == nil || vt.Value == nil || kt.Value.Kind() != constant.String {
					return true
				}
				got, isInt := constant.Int64Val(constant.ToInt(vt.Value))
				if !isInt || vt.Value.Kind() != constant.Int {
					return true
				}
				name := constant.StringVal(kt.Value)
				wantR, isR := rcode[name]
				wantT, isT := rrtype[name]
				if !isR && !isT {
					return true
				}
				n++
				ok2 := (isR && got == wantR) || (isT && got == wantT)
				want := wantR
				if !isR {
					want = wantT
				}
				c.Check(ok2, rule, fmt.Sprintf("table entry %q", name), kv.Pos(), fmt.Sprintf("%d, as in the DNS library", got),
					fmt.Sprintf("the keyword %q is given the number %d, the DNS library's table (which the full form of the modifier uses) gives it %d: the shorthand and the full form denote different codes, so an exception in one form no longer cancels a rewrite in the other", name, got, want))
				return true
			})
		}
	}
	c.Extra["keyword_table_entries"] = n
}
