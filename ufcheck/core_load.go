package main

// Loading of /repo: go/packages (type-checked syntax of the whole dependency
// closure), go/ssa (with generics instantiated) and, lazily, a VTA call graph.
// Every failure here is fatal for the check (fail closed).

import (
	"fmt"
	"go/token"
	"go/types"
	"os"
	"sort"
	"strings"

	"golang.org/x/tools/go/callgraph"
	"golang.org/x/tools/go/callgraph/cha"
	"golang.org/x/tools/go/callgraph/vta"
	"golang.org/x/tools/go/packages"
	"golang.org/x/tools/go/ssa"
	"golang.org/x/tools/go/ssa/ssautil"
)

const modPath = "github.com/AdguardTeam/urlfilter"

// libPkgs are the six library packages every rule set may inspect.
var libPkgs = []string{"", "rules", "filterlist", "filterutil", "lookup", "proxy"}

// Prog is the loaded, resolved program.
type Prog struct {
	Repo   string
	Fset   *token.FileSet
	Pkgs   map[string]*packages.Package // by import path
	SSA    *ssa.Program
	SPkg   map[string]*ssa.Package // by import path
	cg     *callgraph.Graph
	nPkgs  int
	GOARCH string
	GOOS   string
	// adopted: helpers outside the vocabulary that fill a role no vocabulary function fills any more
	// (the function that had the role was replaced); treated as vocabulary for the rest of the run
	adopted map[*ssa.Function]bool
	// successors: renamed unexported methods of the vocabulary, resolved by what they write
	successors map[string]*ssa.Function
}

func pkgPath(short string) string {
	if short == "" {
		return modPath
	}
	return modPath + "/" + short
}

// Load loads the repository at dir.  goarch/goos may be empty (host values).
func Load(dir, goos, goarch string, tests bool) (*Prog, error) {
	env := append(os.Environ(),
		"GOFLAGS=-mod=mod", "GOPROXY=off", "GOSUMDB=off", "GOTOOLCHAIN=local", "GOWORK=off")
	if goarch != "" {
		env = append(env, "GOARCH="+goarch)
	}
	if goos != "" {
		env = append(env, "GOOS="+goos, "CGO_ENABLED=0")
	}
	cfg := &packages.Config{
		Mode:  packages.LoadAllSyntax,
		Dir:   dir,
		Env:   env,
		Tests: tests,
	}
	pkgs, err := packages.Load(cfg, "./...")
	if err != nil {
		return nil, fmt.Errorf("packages.Load: %w", err)
	}
	if len(pkgs) == 0 {
		return nil, fmt.Errorf("no packages loaded from %s", dir)
	}
	var errs []string
	packages.Visit(pkgs, nil, func(p *packages.Package) {
		for _, e := range p.Errors {
			errs = append(errs, p.PkgPath+": "+e.Error())
		}
	})
	if len(errs) > 0 {
		sort.Strings(errs)
		if len(errs) > 8 {
			errs = errs[:8]
		}
		return nil, fmt.Errorf("type-check/load errors:\n  %s", strings.Join(errs, "\n  "))
	}
	prog, _ := ssautil.AllPackages(pkgs, ssa.InstantiateGenerics)
	prog.Build()

	p := &Prog{
		Repo: dir, Fset: pkgs[0].Fset, Pkgs: map[string]*packages.Package{},
		SSA: prog, SPkg: map[string]*ssa.Package{}, nPkgs: len(pkgs),
		GOARCH: goarch, GOOS: goos,
	}
	packages.Visit(pkgs, nil, func(pk *packages.Package) {
		// With Tests:true the test variant "p [p.test]" shares the PkgPath;
		// keep the variant with the most files (the test-augmented one).
		if old, ok := p.Pkgs[pk.PkgPath]; ok && len(old.Syntax) >= len(pk.Syntax) {
			return
		}
		p.Pkgs[pk.PkgPath] = pk
	})
	for path, pk := range p.Pkgs {
		if sp := prog.Package(pk.Types); sp != nil {
			p.SPkg[path] = sp
		}
	}
	for _, s := range libPkgs {
		if p.SPkg[pkgPath(s)] == nil {
			return nil, fmt.Errorf("library package %q missing from the load", pkgPath(s))
		}
	}
	return p, nil
}

// CG returns the VTA call graph (built on first use).
func (p *Prog) CG() *callgraph.Graph {
	if p.cg == nil {
		fns := ssautil.AllFunctions(p.SSA)
		p.cg = vta.CallGraph(fns, cha.CallGraph(p.SSA))
	}
	return p.cg
}

// IsRepoFunc reports whether fn belongs to one of the repository's packages.
func (p *Prog) IsRepoFunc(fn *ssa.Function) bool {
	if fn == nil {
		return false
	}
	pk := fn.Package()
	if pk == nil {
		if fn.Parent() != nil {
			return p.IsRepoFunc(fn.Parent())
		}
		if o := fn.Origin(); o != nil && o != fn {
			return p.IsRepoFunc(o)
		}
		return false
	}
	return pk.Pkg.Path() == modPath || strings.HasPrefix(pk.Pkg.Path(), modPath+"/")
}

// IsLibFunc: repository function in one of the six library packages.
func (p *Prog) IsLibFunc(fn *ssa.Function) bool {
	if !p.IsRepoFunc(fn) {
		return false
	}
	for fn.Parent() != nil {
		fn = fn.Parent()
	}
	if fn.Package() == nil {
		return false
	}
	path := fn.Package().Pkg.Path()
	for _, s := range libPkgs {
		if path == pkgPath(s) {
			return true
		}
	}
	return false
}

// Func resolves a package-level function "pkg.Name" (pkg is the short name
// relative to the module: "", "rules", ...).  nil if absent.
func (p *Prog) Func(pkg, name string) *ssa.Function {
	sp := p.SPkg[pkgPath(pkg)]
	if sp == nil {
		return nil
	}
	return sp.Func(name)
}

// Type resolves a named type of a repository package.
func (p *Prog) Type(pkg, name string) *types.Named {
	pk := p.Pkgs[pkgPath(pkg)]
	if pk == nil {
		return nil
	}
	o := pk.Types.Scope().Lookup(name)
	if o == nil {
		return nil
	}
	tn, ok := o.(*types.TypeName)
	if !ok {
		return nil
	}
	n, _ := tn.Type().(*types.Named)
	return n
}

// Method resolves method name on *T or T of a repository package.
func (p *Prog) Method(pkg, typ, name string) *ssa.Function {
	n := p.Type(pkg, typ)
	if n == nil {
		return nil
	}
	for _, t := range []types.Type{types.NewPointer(n), n} {
		ms := p.SSA.MethodSets.MethodSet(t)
		for i := 0; i < ms.Len(); i++ {
			sel := ms.At(i)
			if sel.Obj().Name() == name {
				if fn := p.SSA.MethodValue(sel); fn != nil {
					// Skip wrappers for promoted methods of embedded fields.
					if fn.Synthetic == "" {
						return fn
					}
				}
			}
		}
	}
	// an unexported method of the vocabulary that is gone under its name: its successor is the one
	// method of the type outside the vocabulary that (itself or through helpers) writes the fields the
	// old one was the only writer of
	if flds, ok := successorByWrites[pkg+"."+typ+"."+name]; ok {
		if fn, done := p.successors[pkg+"."+typ+"."+name]; done {
			return fn
		}
		var got []*ssa.Function
		ms := p.SSA.MethodSets.MethodSet(types.NewPointer(n))
		for i := 0; i < ms.Len(); i++ {
			fn := p.SSA.MethodValue(ms.At(i))
			if fn == nil || fn.Synthetic != "" || fn.Blocks == nil || !p.IsNewHelper(fn) {
				continue
			}
			wrote := map[string]bool{}
			for hf := range helperGroup(p, fn) {
				eachInstr(hf, func(_ *ssa.BasicBlock, in ssa.Instruction) {
					if st, ok := in.(*ssa.Store); ok {
						if nt, f, ok := fieldOf(st.Addr); ok && nt == n {
							wrote[f] = true
						}
					}
				})
			}
			all := true
			for _, f := range flds {
				if !wrote[f] {
					all = false
				}
			}
			if all {
				got = append(got, fn)
			}
		}
		if p.successors == nil {
			p.successors = map[string]*ssa.Function{}
		}
		var res *ssa.Function
		if len(got) == 1 {
			res = got[0]
			if p.adopted == nil {
				p.adopted = map[*ssa.Function]bool{}
			}
			p.adopted[res] = true
		}
		p.successors[pkg+"."+typ+"."+name] = res
		return res
	}
	return nil
}

// successorByWrites: unexported methods of the vocabulary that may be renamed, with the fields they
// alone write.
var successorByWrites = map[string][]string{
	"rules.NetworkRule.preparePattern": {"regex"},
}

// Const returns the value object of a package-level constant.
func (p *Prog) Const(pkg, name string) *types.Const {
	pk := p.Pkgs[pkgPath(pkg)]
	if pk == nil {
		return nil
	}
	c, _ := pk.Types.Scope().Lookup(name).(*types.Const)
	return c
}

// Global returns the ssa.Global of a package-level variable.
func (p *Prog) Global(pkg, name string) *ssa.Global {
	sp := p.SPkg[pkgPath(pkg)]
	if sp == nil {
		return nil
	}
	g, _ := sp.Members[name].(*ssa.Global)
	return g
}

// Pos renders a position relative to the repository root.
func (p *Prog) Pos(pos token.Pos) string {
	if !pos.IsValid() {
		return "-"
	}
	ps := p.Fset.Position(pos)
	f := strings.TrimPrefix(ps.Filename, p.Repo+"/")
	return fmt.Sprintf("%s:%d:%d", f, ps.Line, ps.Column)
}

// FuncName is a stable, human-readable name for a function.
func FuncName(fn *ssa.Function) string {
	if fn == nil {
		return "<nil>"
	}
	s := fn.String()
	s = strings.ReplaceAll(s, modPath+"/", "")
	s = strings.ReplaceAll(s, modPath, "urlfilter")
	return s
}

// AllLibFuncs returns every source function (incl. anonymous ones) of the six
// library packages, sorted by name.
func (p *Prog) AllLibFuncs() []*ssa.Function {
	var out []*ssa.Function
	seen := map[*ssa.Function]bool{}
	var add func(fn *ssa.Function)
	add = func(fn *ssa.Function) {
		if fn == nil || seen[fn] || fn.Blocks == nil {
			return
		}
		seen[fn] = true
		out = append(out, fn)
		for _, a := range fn.AnonFuncs {
			add(a)
		}
	}
	for _, s := range libPkgs {
		sp := p.SPkg[pkgPath(s)]
		for _, m := range sp.Members {
			switch m := m.(type) {
			case *ssa.Function:
				if m.Synthetic == "" || m.Name() == "init" {
					add(m)
				}
			case *ssa.Type:
				for _, t := range []types.Type{m.Type(), types.NewPointer(m.Type())} {
					ms := p.SSA.MethodSets.MethodSet(t)
					for i := 0; i < ms.Len(); i++ {
						fn := p.SSA.MethodValue(ms.At(i))
						if fn != nil && fn.Synthetic == "" {
							add(fn)
						}
					}
				}
			}
		}
	}
	sort.Slice(out, func(i, j int) bool { return out[i].String() < out[j].String() })
	return out
}

// Callees returns the possible callees of a call instruction: the static
// callee if there is one, otherwise the VTA targets.
func (p *Prog) Callees(site ssa.CallInstruction) []*ssa.Function {
	if c := site.Common().StaticCallee(); c != nil {
		return []*ssa.Function{c}
	}
	n := p.CG().Nodes[site.Parent()]
	if n == nil {
		return nil
	}
	var out []*ssa.Function
	for _, e := range n.Out {
		if e.Site == site {
			out = append(out, e.Callee.Func)
		}
	}
	return out
}

// Reachable returns the set of functions reachable from roots through the
// call graph (static callees, VTA for dynamic calls, closures created in a
// reachable function).
func (p *Prog) Reachable(roots ...*ssa.Function) map[*ssa.Function]bool {
	seen := map[*ssa.Function]bool{}
	var work []*ssa.Function
	push := func(f *ssa.Function) {
		if f != nil && !seen[f] {
			seen[f] = true
			work = append(work, f)
		}
	}
	for _, r := range roots {
		push(r)
	}
	for len(work) > 0 {
		f := work[len(work)-1]
		work = work[:len(work)-1]
		for _, a := range f.AnonFuncs {
			push(a)
		}
		for _, b := range f.Blocks {
			for _, in := range b.Instrs {
				if site, ok := in.(ssa.CallInstruction); ok {
					for _, c := range p.Callees(site) {
						push(c)
					}
				}
			}
		}
	}
	return seen
}
