package main

import (
	"go/types"

	"golang.org/x/tools/go/ssa"
)

// Lazily computed loop-invariant values.  A loop that computes a value V
// (which mentions nothing loop-carried) at most once keeps it in a
// loop-carried variable p next to a loop-carried flag k, false on entry:
//
//	if !k { p = V; k = true }
//
// The relation  k => p == V  is an inductive invariant of such a loop: it
// holds on entry (k is false), and an iteration preserves it when every value
// p takes on a back edge is V or, where the flag is set afterwards and p is
// kept, the flag was set before.  With the invariant the selection
// ite(k, p, V) that the body uses is V.  The evaluation finds these pairs
// after a first pass and repeats itself with them; nothing is assumed about
// names.

type memoInv struct {
	k    Ref // the flag (a variable of the BDD)
	p    *E  // the carried value (nil when boolean)
	pRef Ref // boolean carried value
	v    *E
	vRef Ref
}

// memoITE applies the invariants to a selection.
func (u *U) memoITE(c Ref, a, b *E) *E {
	for _, m := range u.memo {
		if m.p != nil {
			if a == m.p && b == m.v && u.bdd.Implies(c, m.k) {
				return b
			}
			if b == m.p && a == m.v && u.bdd.Implies(u.bdd.Not(c), m.k) {
				return a
			}
			continue
		}
		if !isBoolE(a) || !isBoolE(b) {
			continue
		}
		ar, br := u.ToBool(a), u.ToBool(b)
		if ar == m.pRef && br == m.vRef && u.bdd.Implies(c, m.k) {
			return b
		}
		if br == m.pRef && ar == m.vRef && u.bdd.Implies(u.bdd.Not(c), m.k) {
			return a
		}
	}
	return nil
}

func mentionsLoopSym(u *U, e *E) bool {
	return u.Mentions(e, func(x *E) bool { return x.Op == "loopphi" || x.Op == "loopval" })
}

// findMemoInvariants looks for flag/value pairs in the loops of the evaluation
// and records the proved invariants; it reports whether a new one was found.
func (g *Gate) findMemoInvariants(s *Summary) bool {
	u := g.U
	found := false
	acts := []*Summary{s}
	for _, sub := range g.Subs {
		if sub != s && sub.Fn != nil && len(sub.Fn.Blocks) > 0 {
			acts = append(acts, sub)
		}
	}
	isKnown := func(m memoInv) bool {
		for _, o := range u.memo {
			if o == m {
				return true
			}
		}
		return false
	}
	for _, act := range acts {
		for _, l := range loopsOf(act.Fn) {
			var phis []*ssa.Phi
			for _, in := range l.Header.Instrs {
				ph, ok := in.(*ssa.Phi)
				if !ok {
					break
				}
				phis = append(phis, ph)
			}
			for _, kp := range phis {
				if b, ok := kp.Type().Underlying().(*types.Basic); !ok || b.Kind() != types.Bool {
					continue
				}
				kE := act.Env[kp]
				if kE == nil || kE.Op != "loopphi" {
					continue
				}
				kRef := u.ToBool(kE)
				// false on entry
				entryFalse := true
				for i, pr := range l.Header.Preds {
					if l.Blocks[pr] {
						continue
					}
					cv, ok := kp.Edges[i].(*ssa.Const)
					if !ok || cv.Value == nil || cv.Value.String() != "false" {
						entryFalse = false
					}
				}
				if !entryFalse {
					continue
				}
				for _, pp := range phis {
					if pp == kp {
						continue
					}
					pE := act.Env[pp]
					if pE == nil || pE.Op != "loopphi" {
						continue
					}
					if isBoolE(pE) {
						pRef := u.ToBool(pE)
						// candidates for V: atoms of the back-edge values that mention nothing loop-carried
						cands := map[int]bool{}
						for i, pr := range l.Header.Preds {
							if !l.Blocks[pr] {
								continue
							}
							if v := act.Env[pp.Edges[i]]; v != nil && isBoolE(v) {
								for _, a := range u.bdd.Support(u.ToBool(v)) {
									if !mentionsLoopSym(u, u.atoms[a]) {
										cands[a] = true
									}
								}
							}
						}
						for a := range cands {
							vRef := u.bdd.Var(a)
							hyp := u.bdd.Imp(kRef, u.bdd.Iff(pRef, vRef))
							ok, n := true, 0
							for i, pr := range l.Header.Preds {
								if !l.Blocks[pr] {
									continue
								}
								n++
								kv, pv := act.Env[kp.Edges[i]], act.Env[pp.Edges[i]]
								if kv == nil || pv == nil || !isBoolE(pv) {
									ok = false
									continue
								}
								pre := u.bdd.And(u.bdd.And(edgeCondOf(u, act, pr, l.Header), u.ToBool(kv)), hyp)
								if !u.bdd.Implies(pre, u.bdd.Iff(u.ToBool(pv), vRef)) {
									ok = false
								}
							}
							if ok && n > 0 {
								m := memoInv{k: kRef, pRef: pRef, vRef: vRef}
								if !isKnown(m) {
									u.memo = append(u.memo, m)
									found = true
								}
							}
						}
						continue
					}
					var V *E
					ok, n := true, 0
					for i, pr := range l.Header.Preds {
						if !l.Blocks[pr] {
							continue
						}
						n++
						kv, pv := act.Env[kp.Edges[i]], act.Env[pp.Edges[i]]
						if kv == nil || pv == nil {
							ok = false
							continue
						}
						kNext := u.ToBool(kv)
						for leaf, cond := range u.Leaves(pv) {
							c := u.bdd.And(edgeCondOf(u, act, pr, l.Header), cond)
							if c == False {
								continue
							}
							if leaf == pE {
								// kept: if the flag is set afterwards it was set before
								if !u.bdd.Implies(u.bdd.And(c, kNext), kRef) {
									ok = false
								}
								continue
							}
							if mentionsLoopSym(u, leaf) || (V != nil && V != leaf) {
								ok = false
								continue
							}
							V = leaf
						}
					}
					if ok && n > 0 && V != nil {
						m := memoInv{k: kRef, p: pE, v: V}
						if !isKnown(m) {
							u.memo = append(u.memo, m)
							found = true
						}
					}
				}
			}
		}
	}
	return found
}
