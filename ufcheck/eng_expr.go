package main

// Canonical expressions over opaque terms.  Boolean-typed values are BDDs over
// atoms (an atom is any boolean expression that is not a boolean connective:
// a comparison, a predicate call, a bool field load).  Everything else is a
// hash-consed tree.  Nothing here interprets strings or solves constraints;
// the only arithmetic is constant folding.

import (
	"fmt"
	"go/constant"
	"go/token"
	"go/types"
	"os"
	"sort"
	"strings"
)

type E struct {
	Op    string
	Aux   string
	Args  []*E
	B     Ref // Op=="bool": the value; Op=="ite": the condition
	Typ   types.Type
	Const constant.Value
	key   string
	id    int
}

func (e *E) Key() string { return e.key }

// U is the universe of expressions of one analysis run.
type U struct {
	bdd    *BDD
	tab    map[string]*E
	atoms  []*E // var index -> atom expression
	atomIx map[string]int
	nextID int
	memo   []memoInv // proved flag/value invariants of lazily computed loop-invariant values
}

func NewU() *U {
	return &U{bdd: NewBDD(), tab: map[string]*E{}, atomIx: map[string]int{}}
}

func (u *U) mk(op, aux string, typ types.Type, args ...*E) *E {
	var sb strings.Builder
	sb.WriteString(op)
	if aux != "" {
		sb.WriteByte('<')
		sb.WriteString(aux)
		sb.WriteByte('>')
	}
	if len(args) > 0 {
		sb.WriteByte('(')
		for i, a := range args {
			if i > 0 {
				sb.WriteByte(',')
			}
			if a == nil {
				sb.WriteString("nil")
			} else {
				sb.WriteString(a.key)
			}
		}
		sb.WriteByte(')')
	}
	k := sb.String()
	if e, ok := u.tab[k]; ok {
		return e
	}
	u.nextID++
	e := &E{Op: op, Aux: aux, Args: args, Typ: typ, key: k, id: u.nextID}
	u.tab[k] = e
	return e
}

// ---- constants ----

func (u *U) ConstVal(v constant.Value, typ types.Type) *E {
	if v == nil {
		return u.mk("nil", typeStr(typ), typ)
	}
	if v.Kind() == constant.Bool {
		if constant.BoolVal(v) {
			return u.Bool(True)
		}
		return u.Bool(False)
	}
	e := u.mk("const", v.ExactString(), typ)
	e.Const = v
	return e
}

func (u *U) Int(n int64) *E { return u.ConstVal(constant.MakeInt64(n), types.Typ[types.Int]) }
func (u *U) Str(s string) *E {
	return u.ConstVal(constant.MakeString(s), types.Typ[types.String])
}

func (e *E) IsConst() bool { return e.Op == "const" }
func (e *E) IsNil() bool   { return e.Op == "nil" }

func (e *E) IntVal() (int64, bool) {
	if e.Op != "const" || e.Const.Kind() != constant.Int {
		return 0, false
	}
	return constant.Int64Val(e.Const)
}

func (e *E) StrVal() (string, bool) {
	if e.Op != "const" || e.Const.Kind() != constant.String {
		return "", false
	}
	return constant.StringVal(e.Const), true
}

// ---- booleans ----

func (u *U) Bool(r Ref) *E {
	e := u.mk("bool", fmt.Sprint(int(r)), types.Typ[types.Bool])
	e.B = r
	return e
}

// Atom returns the BDD variable for a boolean expression that is not a
// connective.
func (u *U) Atom(e *E) Ref {
	if ix, ok := u.atomIx[e.key]; ok {
		return u.bdd.Var(ix)
	}
	ix := len(u.atoms)
	u.atoms = append(u.atoms, e)
	u.atomIx[e.key] = ix
	return u.bdd.Var(ix)
}

// AtomExpr returns the expression of BDD variable v.
func (u *U) AtomExpr(v int) *E { return u.atoms[v] }

// ToBool converts a boolean-typed expression to a BDD.
func (u *U) ToBool(e *E) Ref {
	switch e.Op {
	case "bool":
		return e.B
	case "ite":
		return u.bdd.ITE(e.B, u.ToBool(e.Args[0]), u.ToBool(e.Args[1]))
	}
	return u.Atom(e)
}

// ---- structural constructors ----

func typeStr(t types.Type) string {
	if t == nil {
		return ""
	}
	s := types.TypeString(t, func(p *types.Package) string {
		return strings.TrimPrefix(strings.TrimPrefix(p.Path(), modPath+"/"), modPath)
	})
	return s
}

func (u *U) Field(x *E, name string, typ types.Type) *E {
	if x.Op == "ite" {
		return u.ITE(x.B, u.Field(x.Args[0], name, typ), u.Field(x.Args[1], name, typ))
	}
	if x.Op == "struct" {
		// struct<T>(f1=v1,...) literal built by the evaluator
		for i := 0; i+1 < len(x.Args); i += 2 {
			if s, _ := x.Args[i].StrVal(); s == name {
				return x.Args[i+1]
			}
		}
	}
	if x.Op == "zero" && typ != nil {
		return u.Zero(typ)
	}
	return u.mk("field", name, typ, x)
}

func (u *U) Len(x *E) *E {
	if s, ok := x.StrVal(); ok {
		return u.Int(int64(len(s)))
	}
	if x.Op == "ite" {
		return u.ITE(x.B, u.Len(x.Args[0]), u.Len(x.Args[1]))
	}
	if x.Op == "nil" {
		return u.Int(0)
	}
	if x.Op == "array" {
		return u.Int(int64(len(x.Args)))
	}
	// len(s[lo:hi]) = hi - lo for strings and slices
	if x.Op == "slice" && x.Args[3] == nil && (x.Args[1] != nil || x.Args[2] != nil) && x.Args[0].Typ != nil {
		isArrPtr := false
		if pt, ok := x.Args[0].Typ.Underlying().(*types.Pointer); ok {
			_, isArrPtr = pt.Elem().Underlying().(*types.Array)
		}
		if !isArrPtr {
			hi := x.Args[2]
			if hi == nil {
				hi = u.Len(x.Args[0])
			}
			if x.Args[1] == nil {
				return hi
			}
			return u.Bin(token.SUB, hi, x.Args[1], types.Typ[types.Int])
		}
	}
	// arr[:] has the length of the array
	if x.Op == "slice" && x.Args[1] == nil && x.Args[2] == nil && x.Args[0].Typ != nil {
		if pt, ok := x.Args[0].Typ.Underlying().(*types.Pointer); ok {
			if at, isArr := pt.Elem().Underlying().(*types.Array); isArr {
				return u.Int(at.Len())
			}
		}
	}
	return u.mk("len", "", types.Typ[types.Int], x)
}

func (u *U) Call(name string, typ types.Type, args ...*E) *E {
	return u.mk("call", name, typ, args...)
}

// ITE builds if c then a else b for arbitrary (incl. boolean) values.
func (u *U) ITE(c Ref, a, b *E) *E {
	switch {
	case c == True:
		return a
	case c == False:
		return b
	case a == b:
		return a
	}
	if len(u.memo) > 0 {
		if r := u.memoITE(c, a, b); r != nil {
			return r
		}
	}
	if isBoolE(a) && isBoolE(b) {
		return u.Bool(u.bdd.ITE(c, u.ToBool(a), u.ToBool(b)))
	}
	// resolve nested selectors decided by c: under c the branch a is used,
	// under !c the branch b
	for a.Op == "ite" {
		if u.bdd.Implies(c, a.B) {
			a = a.Args[0]
		} else if u.bdd.Implies(c, u.bdd.Not(a.B)) {
			a = a.Args[1]
		} else {
			break
		}
	}
	nc0 := u.bdd.Not(c)
	for b.Op == "ite" {
		if u.bdd.Implies(nc0, b.B) {
			b = b.Args[0]
		} else if u.bdd.Implies(nc0, u.bdd.Not(b.B)) {
			b = b.Args[1]
		} else {
			break
		}
	}
	if a == b {
		return a
	}
	// canonical orientation: ite(c,a,b) and ite(!c,b,a) are the same expression
	if nc := u.bdd.Not(c); nc < c {
		c, a, b = nc, b, a
	}
	t := a.Typ
	if t == nil {
		t = b.Typ
	}
	e := u.mk("ite", fmt.Sprint(int(c)), t, a, b)
	e.B = c
	return e
}

func isBoolE(e *E) bool {
	if e.Op == "bool" {
		return true
	}
	if e.Typ == nil {
		return false
	}
	b, ok := e.Typ.Underlying().(*types.Basic)
	return ok && b.Info()&types.IsBoolean != 0
}

// nonNeg reports whether e is known to be ≥ 0 from its form alone.
func nonNeg(e *E) bool {
	switch e.Op {
	case "len", "cap":
		return true
	case "const":
		if v, ok := e.IntVal(); ok {
			return v >= 0
		}
	case "ite":
		return nonNeg(e.Args[0]) && nonNeg(e.Args[1])
	case "bin":
		if e.Aux == "+" || e.Aux == "*" {
			return nonNeg(e.Args[0]) && nonNeg(e.Args[1])
		}
	case "call":
		if strings.HasPrefix(e.Aux, "math/bits.OnesCount") {
			return true
		}
	}
	if e.Typ != nil {
		if b, ok := e.Typ.Underlying().(*types.Basic); ok && b.Info()&types.IsUnsigned != 0 {
			return true
		}
	}
	return false
}

func isStringT(t types.Type) bool {
	if t == nil {
		return false
	}
	b, ok := t.Underlying().(*types.Basic)
	return ok && b.Info()&types.IsString != 0
}

// Eq builds a == b (as a boolean expression).
func (u *U) Eq(a, b *E) *E {
	if a == b {
		return u.Bool(True)
	}
	if a.Op == "ite" && liftOver(a, b) {
		return u.Bool(u.bdd.ITE(a.B, u.ToBool(u.Eq(a.Args[0], b)), u.ToBool(u.Eq(a.Args[1], b))))
	}
	if b.Op == "ite" && liftOver(b, a) {
		return u.Bool(u.bdd.ITE(b.B, u.ToBool(u.Eq(a, b.Args[0])), u.ToBool(u.Eq(a, b.Args[1]))))
	}
	if isBoolE(a) && isBoolE(b) {
		return u.Bool(u.bdd.Iff(u.ToBool(a), u.ToBool(b)))
	}
	if a.IsConst() && b.IsConst() {
		return u.Bool(boolRef(constant.Compare(a.Const, token.EQL, b.Const)))
	}
	if a.IsNil() && b.IsNil() {
		return u.Bool(True)
	}
	// an interface made from a concrete value has a dynamic type and is never nil (even when the
	// value is a nil pointer)
	if (a.Op == "mkiface" && b.IsNil()) || (b.Op == "mkiface" && a.IsNil()) {
		return u.Bool(False)
	}
	// index-like results: i == -1  ->  i < 0
	if bv, ok := b.IntVal(); ok && indexLike(a) {
		if bv == -1 {
			return u.Lt(a, u.Int(0))
		}
		if bv < -1 {
			return u.Bool(False)
		}
	}
	if av, ok := a.IntVal(); ok && indexLike(b) {
		if av == -1 {
			return u.Lt(b, u.Int(0))
		}
		if av < -1 {
			return u.Bool(False)
		}
	}
	// (non-negative terms) + k == c with k > c: never
	for i := 0; i < 2; i++ {
		x, cst := a, b
		if i == 1 {
			x, cst = b, a
		}
		cv, isC := cst.IntVal()
		if !isC || x.Op != "bin" || x.Aux != "+" {
			continue
		}
		var k int64
		nonNeg := true
		var walk func(e *E)
		walk = func(e *E) {
			if v, ok := e.IntVal(); ok {
				k += v
				return
			}
			switch {
			case e.Op == "bin" && e.Aux == "+" && !isStringT(e.Typ):
				walk(e.Args[0])
				walk(e.Args[1])
			case e.Op == "len" || e.Op == "cap" || (e.Op == "call" && strings.HasPrefix(e.Aux, "math/bits.OnesCount")):
			default:
				nonNeg = false
			}
		}
		walk(x)
		if nonNeg && k > cv {
			return u.Bool(False)
		}
	}
	// s[len(s)-len(p):] == p  ->  HasSuffix(s, p);  s[:len(p)] == p  ->  HasPrefix(s, p)
	// (as values: where the slice expression does not panic the two agree)
	for i := 0; i < 2; i++ {
		x, p := a, b
		if i == 1 {
			x, p = b, a
		}
		if x.Op != "slice" || !isStringT(x.Typ) || len(x.Args) < 3 || p.Op == "slice" && i == 0 && b.Op == "slice" && a.Op == "slice" {
			continue
		}
		str, lo, hi := x.Args[0], x.Args[1], x.Args[2]
		if hi == nil && lo != nil {
			want := u.Bin(token.SUB, u.Len(str), u.Len(p), types.Typ[types.Int])
			if lo == want {
				return u.LibCall("strings.HasSuffix", types.Typ[types.Bool], str, p)
			}
		}
		if (lo == nil || isIntConst(lo, 0)) && hi != nil && hi == u.Len(p) {
			return u.LibCall("strings.HasPrefix", types.Typ[types.Bool], str, p)
		}
	}
	// s == ""  ->  len(s) == 0
	if s, ok := b.StrVal(); ok && s == "" && !a.IsConst() {
		return u.Eq(u.Len(a), u.Int(0))
	}
	if s, ok := a.StrVal(); ok && s == "" && !b.IsConst() {
		return u.Eq(u.Len(b), u.Int(0))
	}
	// freshly allocated objects are never nil
	if (a.Op == "alloc" || a.Op == "new" || a.Op == "struct" || a.Op == "makemap" || a.Op == "makeclosure") && b.IsNil() {
		return u.Bool(False)
	}
	if (b.Op == "alloc" || b.Op == "new" || b.Op == "struct" || b.Op == "makemap" || b.Op == "makeclosure") && a.IsNil() {
		return u.Bool(False)
	}
	// constant on the right
	if a.IsConst() || a.IsNil() || (a.key > b.key && !b.IsConst() && !b.IsNil()) {
		a, b = b, a
	}
	return u.Bool(u.Atom(u.mk("eq", "", types.Typ[types.Bool], a, b)))
}

func boolRef(b bool) Ref {
	if b {
		return True
	}
	return False
}

// Lt builds a < b.
func (u *U) Lt(a, b *E) *E {
	if a == b {
		return u.Bool(False)
	}
	if a.Op == "ite" && liftOver(a, b) {
		return u.Bool(u.bdd.ITE(a.B, u.ToBool(u.Lt(a.Args[0], b)), u.ToBool(u.Lt(a.Args[1], b))))
	}
	if b.Op == "ite" && liftOver(b, a) {
		return u.Bool(u.bdd.ITE(b.B, u.ToBool(u.Lt(a, b.Args[0])), u.ToBool(u.Lt(a, b.Args[1]))))
	}
	if a.IsConst() && b.IsConst() {
		return u.Bool(boolRef(constant.Compare(a.Const, token.LSS, b.Const)))
	}
	if av, ok := a.IntVal(); ok && indexLike(b) {
		if av == -1 { // -1 < i  <=>  !(i < 0)
			return u.Bool(u.bdd.Not(u.ToBool(u.Lt(b, u.Int(0)))))
		}
		if av < -1 {
			return u.Bool(True)
		}
	}
	if bv, ok := b.IntVal(); ok && indexLike(a) && bv < 0 {
		return u.Bool(False)
	}
	if av, ok := a.IntVal(); ok && nonNeg(b) {
		if av < 0 {
			return u.Bool(True)
		}
		if av == 0 { // 0 < b  <=>  b != 0
			return u.Bool(u.bdd.Not(u.ToBool(u.Eq(b, u.Int(0)))))
		}
	}
	if bv, ok := b.IntVal(); ok && nonNeg(a) {
		if bv <= 0 {
			return u.Bool(False)
		}
		if bv == 1 { // a < 1  <=>  a == 0
			return u.Eq(a, u.Int(0))
		}
	}
	if r := u.ltNorm(a, b); r != nil {
		return r
	}
	return u.Bool(u.Atom(u.mk("lt", "", types.Typ[types.Bool], a, b)))
}

// ltNorm gives comparisons of signed integer sums one normal form: with
// D = a - b = P - N + k (P, N sums of distinct terms, k a constant),
//
//	a < b  <=>  P + k < N            for k >= 0
//	a < b  <=>  !(N + (-k-1) < P)    for k <  0
//
// so that i <= n-5, i+5 <= n, !(n < i+5) and n-i-5 >= 0 are one atom, and
// len(h)-len(s)-1 < 0 is !(len(s) < len(h)).  Single-term comparisons keep the
// constant on the other side (x < c, c < x).  (Lengths and indexes: no
// overflow.)
func (u *U) ltNorm(a, b *E) *E {
	signed := func(e *E) (types.Type, bool) {
		if e.Op == "len" || e.Op == "cap" {
			return types.Typ[types.Int], true
		}
		if e.Typ == nil {
			return nil, false
		}
		bt, ok := e.Typ.Underlying().(*types.Basic)
		if !ok || bt.Info()&types.IsInteger == 0 || bt.Info()&types.IsUnsigned != 0 {
			return nil, false
		}
		switch bt.Kind() {
		case types.Int, types.Int64, types.Int32, types.UntypedInt:
			return e.Typ, true
		}
		return nil, false
	}
	ta, oka := signed(a)
	tb, okb := signed(b)
	if !oka || !okb {
		return nil
	}
	typ := ta
	if a.IsConst() {
		typ = tb
	}
	if bt, ok := typ.Underlying().(*types.Basic); ok && bt.Kind() == types.UntypedInt {
		typ = types.Typ[types.Int]
	}
	coef := map[*E]int64{}
	var order []*E
	var k int64
	ok := true
	var flat func(e *E, sign int64)
	flat = func(e *E, sign int64) {
		if v, isC := e.IntVal(); isC && e.IsConst() {
			k += sign * v
			return
		}
		if e.Op == "bin" && (e.Aux == "+" || e.Aux == "-") && e.Typ != nil && isIntLikeT(e.Typ) && !isStringT(e.Typ) {
			if bt, isB := e.Typ.Underlying().(*types.Basic); isB && bt.Info()&types.IsUnsigned != 0 {
				ok = false
				return
			}
			flat(e.Args[0], sign)
			if e.Aux == "+" {
				flat(e.Args[1], sign)
			} else {
				flat(e.Args[1], -sign)
			}
			return
		}
		if e.Op == "ite" {
			ok = false
			return
		}
		if _, seen := coef[e]; !seen {
			order = append(order, e)
		}
		coef[e] += sign
	}
	flat(a, 1)
	flat(b, -1)
	if !ok {
		return nil
	}
	var P, N []*E
	sort.Slice(order, func(i, j int) bool { return order[i].key < order[j].key })
	for _, e := range order {
		switch coef[e] {
		case 0:
		case 1:
			P = append(P, e)
		case -1:
			N = append(N, e)
		default:
			return nil
		}
	}
	if len(P)+len(N) == 0 {
		return u.Bool(boolRef(k < 0))
	}
	sum := func(ts []*E, c int64) *E {
		var acc *E
		for _, t := range ts {
			if acc == nil {
				acc = t
			} else {
				acc = u.Bin(token.ADD, acc, t, typ)
			}
		}
		if acc == nil {
			return u.ConstVal(constant.MakeInt64(c), typ)
		}
		if c != 0 {
			acc = u.Bin(token.ADD, acc, u.ConstVal(constant.MakeInt64(c), typ), typ)
		}
		return acc
	}
	atom := func(x, y *E) Ref { return u.Atom(u.mk("lt", "", types.Typ[types.Bool], x, y)) }
	// unchanged shape?  then let the caller build the plain atom
	switch {
	case len(P) == 1 && len(N) == 0:
		// x + k < 0  <=>  x < -k
		x, c := P[0], u.ConstVal(constant.MakeInt64(-k), typ)
		if x == a && c == b {
			return nil
		}
		return u.Lt(x, c)
	case len(P) == 0 && len(N) == 1:
		// k - x < 0  <=>  k < x
		x, c := N[0], u.ConstVal(constant.MakeInt64(k), typ)
		if c == a && x == b {
			return nil
		}
		return u.Lt(c, x)
	}
	if k >= 0 {
		l, r := sum(P, k), sum(N, 0)
		if l == a && r == b {
			return nil
		}
		return u.Bool(atom(l, r))
	}
	l, r := sum(N, -k-1), sum(P, 0)
	return u.Bool(u.bdd.Not(atom(l, r)))
}

// Cmp builds a comparison from a Go token.
func (u *U) Cmp(op token.Token, a, b *E) *E {
	switch op {
	case token.EQL:
		return u.Eq(a, b)
	case token.NEQ:
		return u.Bool(u.bdd.Not(u.ToBool(u.Eq(a, b))))
	case token.LSS:
		return u.Lt(a, b)
	case token.GTR:
		return u.Lt(b, a)
	case token.LEQ:
		return u.Bool(u.bdd.Not(u.ToBool(u.Lt(b, a))))
	case token.GEQ:
		return u.Bool(u.bdd.Not(u.ToBool(u.Lt(a, b))))
	}
	panic("cmp " + op.String())
}

// Bin builds an arithmetic/bitwise operation with constant folding and
// lifting over ite when that yields constants.
func (u *U) Bin(op token.Token, a, b *E, typ types.Type) *E {
	if a.IsConst() && b.IsConst() {
		if v, ok := foldBin(op, a.Const, b.Const, typ); ok {
			return u.ConstVal(v, typ)
		}
	}
	if a.Op == "ite" && b.IsConst() {
		return u.ITE(a.B, u.Bin(op, a.Args[0], b, typ), u.Bin(op, a.Args[1], b, typ))
	}
	if b.Op == "ite" && a.IsConst() {
		return u.ITE(b.B, u.Bin(op, a, b.Args[0], typ), u.Bin(op, a, b.Args[1], typ))
	}
	// a & ^b is a &^ b
	if op == token.AND {
		if b.Op == "un" && b.Aux == "^" {
			return u.Bin(token.AND_NOT, a, b.Args[0], typ)
		}
		if a.Op == "un" && a.Aux == "^" {
			return u.Bin(token.AND_NOT, b, a.Args[0], typ)
		}
	}
	// identities
	if bv, ok := b.IntVal(); ok && bv == 0 && (op == token.ADD || op == token.SUB || op == token.OR || op == token.XOR || op == token.SHL || op == token.SHR) {
		return a
	}
	if av, ok := a.IntVal(); ok && av == 0 && (op == token.ADD || op == token.OR || op == token.XOR) {
		return b
	}
	if op == token.ADD && isStringT(typ) {
		if s, ok := a.StrVal(); ok && s == "" {
			return b
		}
		if s, ok := b.StrVal(); ok && s == "" {
			return a
		}
	}
	// sums and differences of integers: one normal form for every association
	// (a-b-1, a-(b+1), (a-1)-b ... are the same expression)
	if (op == token.ADD || op == token.SUB) && !isStringT(typ) && isIntLikeT(typ) {
		if r := u.linNorm(op, a, b, typ); r != nil {
			return r
		}
	}
	// commutative ops: canonical operand order
	switch op {
	case token.AND, token.OR, token.XOR, token.MUL:
		if a.key > b.key {
			a, b = b, a
		}
	case token.ADD:
		if !isStringT(typ) && a.key > b.key {
			a, b = b, a
		}
	}
	return u.mk("bin", op.String(), typ, a, b)
}

func foldBin(op token.Token, a, b constant.Value, typ types.Type) (v constant.Value, ok bool) {
	defer func() {
		if recover() != nil {
			ok = false
		}
	}()
	switch op {
	case token.SHL, token.SHR:
		s, exact := constant.Uint64Val(b)
		if !exact || s > 64 {
			return nil, false
		}
		v = constant.Shift(a, op, uint(s))
	case token.AND_NOT:
		if a.Kind() != constant.Int || b.Kind() != constant.Int {
			return nil, false
		}
		v = constant.BinaryOp(a, token.AND_NOT, b)
	case token.QUO:
		if b.Kind() == constant.Int && constant.Sign(b) == 0 {
			return nil, false
		}
		if a.Kind() == constant.Int && b.Kind() == constant.Int {
			v = constant.BinaryOp(a, token.QUO_ASSIGN, b)
		} else {
			v = constant.BinaryOp(a, op, b)
		}
	default:
		v = constant.BinaryOp(a, op, b)
	}
	if v.Kind() == constant.Unknown {
		return nil, false
	}
	// wrap to the width of typ for integers
	if bt, isB := typ.Underlying().(*types.Basic); isB && bt.Info()&types.IsInteger != 0 && v.Kind() == constant.Int {
		v = wrapInt(v, bt)
	}
	return v, true
}

func wrapInt(v constant.Value, bt *types.Basic) constant.Value {
	bits := map[types.BasicKind]uint{
		types.Int8: 8, types.Uint8: 8, types.Int16: 16, types.Uint16: 16,
		types.Int32: 32, types.Uint32: 32, types.Int64: 64, types.Uint64: 64,
		types.Int: 64, types.Uint: 64, types.Uintptr: 64,
	}[bt.Kind()]
	if bits == 0 {
		return v
	}
	mod := constant.Shift(constant.MakeInt64(1), token.SHL, bits)
	m := constant.BinaryOp(v, token.REM, mod)
	if constant.Sign(m) < 0 {
		m = constant.BinaryOp(m, token.ADD, mod)
	}
	if bt.Info()&types.IsUnsigned == 0 {
		half := constant.Shift(constant.MakeInt64(1), token.SHL, bits-1)
		if constant.Compare(m, token.GEQ, half) {
			m = constant.BinaryOp(m, token.SUB, mod)
		}
	}
	return m
}

// Subst returns e with every sub-expression whose key is in m replaced.
func (u *U) Subst(e *E, m map[string]*E) *E {
	memo := map[*E]*E{}
	var rec func(*E) *E
	rec = func(x *E) *E {
		if x == nil {
			return nil
		}
		if r, ok := m[x.key]; ok {
			return r
		}
		if r, ok := memo[x]; ok {
			return r
		}
		var out *E
		switch x.Op {
		case "bool":
			out = u.Bool(u.SubstBool(x.B, m))
		case "ite":
			out = u.ITE(u.SubstBool(x.B, m), rec(x.Args[0]), rec(x.Args[1]))
		default:
			if len(x.Args) == 0 {
				out = x
			} else {
				args := make([]*E, len(x.Args))
				changed := false
				for i, a := range x.Args {
					args[i] = rec(a)
					if args[i] != a {
						changed = true
					}
				}
				if !changed {
					out = x
				} else {
					out = u.rebuild(x, args)
				}
			}
		}
		memo[x] = out
		return out
	}
	return rec(e)
}

func (u *U) rebuild(x *E, args []*E) *E {
	switch x.Op {
	case "eq":
		return u.Eq(args[0], args[1])
	case "lt":
		return u.Lt(args[0], args[1])
	case "len":
		return u.Len(args[0])
	case "field":
		return u.Field(args[0], x.Aux, x.Typ)
	case "bin":
		if tok, ok := binTokens[x.Aux]; ok {
			return u.Bin(tok, args[0], args[1], x.Typ)
		}
	case "un":
		return u.Un(x.Aux, args[0], x.Typ)
	case "convert":
		if args[0].IsConst() {
			if v, ok := convertConst(args[0].Const, x.Typ); ok {
				return u.ConstVal(v, x.Typ)
			}
		}
	case "call":
		if IsPureLib(x.Aux) {
			return u.LibCall(x.Aux, x.Typ, args...)
		}
		if v := u.foldCall(x.Aux, args, x.Typ); v != nil {
			return v
		}
	case "slice":
		return u.Slice(args[0], args[1], args[2], args[3], x.Typ)
	}
	e := u.mk(x.Op, x.Aux, x.Typ, args...)
	e.Const = x.Const
	return e
}

// SubstBool substitutes inside the atoms of a BDD.
func (u *U) SubstBool(f Ref, m map[string]*E) Ref {
	memo := map[Ref]Ref{}
	var rec func(Ref) Ref
	rec = func(r Ref) Ref {
		if r <= True {
			return r
		}
		if v, ok := memo[r]; ok {
			return v
		}
		n := u.bdd.nodes[r]
		at := u.atoms[n.v]
		na := u.ToBool(u.Subst(at, m))
		out := u.bdd.ITE(na, rec(n.hi), rec(n.lo))
		memo[r] = out
		return out
	}
	return rec(f)
}

// Mentions reports whether e contains a sub-expression satisfying pred.
func (u *U) Mentions(e *E, pred func(*E) bool) bool {
	seen := map[*E]bool{}
	var rec func(*E) bool
	rec = func(x *E) bool {
		if x == nil || seen[x] {
			return false
		}
		seen[x] = true
		if pred(x) {
			return true
		}
		if x.Op == "bool" || x.Op == "ite" {
			for _, v := range u.bdd.Support(x.B) {
				if rec(u.atoms[v]) {
					return true
				}
			}
		}
		for _, a := range x.Args {
			if rec(a) {
				return true
			}
		}
		return false
	}
	return rec(e)
}

// Show renders an expression for humans.
func (u *U) Show(e *E) string {
	if e == nil {
		return "<nil>"
	}
	switch e.Op {
	case "bool":
		return u.ShowBool(e.B)
	case "const":
		return e.Const.ExactString()
	case "nil":
		return "nil"
	case "param":
		return e.Aux
	case "field":
		return u.Show(e.Args[0]) + "." + e.Aux
	case "len":
		return "len(" + u.Show(e.Args[0]) + ")"
	case "eq":
		return u.Show(e.Args[0]) + "==" + u.Show(e.Args[1])
	case "lt":
		return u.Show(e.Args[0]) + "<" + u.Show(e.Args[1])
	case "bin":
		return "(" + u.Show(e.Args[0]) + e.Aux + u.Show(e.Args[1]) + ")"
	case "ite":
		return "ite(" + u.ShowBool(e.B) + "," + u.Show(e.Args[0]) + "," + u.Show(e.Args[1]) + ")"
	case "call", "invoke":
		var as []string
		for _, a := range e.Args {
			as = append(as, u.Show(a))
		}
		n := e.Aux
		n = strings.ReplaceAll(n, modPath+"/", "")
		return n + "(" + strings.Join(as, ",") + ")"
	}
	var as []string
	for _, a := range e.Args {
		as = append(as, u.Show(a))
	}
	s := e.Op
	if e.Aux != "" {
		s += "<" + e.Aux + ">"
	}
	if len(as) > 0 {
		s += "(" + strings.Join(as, ",") + ")"
	}
	return s
}

// ShowBool renders a BDD as a disjunction of cubes (small functions only).
func (u *U) ShowBool(f Ref) string {
	if f == True {
		return "true"
	}
	if f == False {
		return "false"
	}
	var cubes []string
	n := 0
	u.bdd.Cubes(f, func(c map[int]bool) {
		n++
		if n > 12 {
			return
		}
		var vs []int
		for v := range c {
			vs = append(vs, v)
		}
		sort.Ints(vs)
		var lits []string
		for _, v := range vs {
			s := u.Show(u.atoms[v])
			if !c[v] {
				s = "!" + s
			}
			lits = append(lits, s)
		}
		cubes = append(cubes, strings.Join(lits, " & "))
	})
	if n > 12 {
		cubes = append(cubes, fmt.Sprintf("…(%d cubes)", n))
	}
	if len(cubes) == 1 {
		return cubes[0]
	}
	return "(" + strings.Join(cubes, " | ") + ")"
}

var binTokens = map[string]token.Token{
	"+": token.ADD, "-": token.SUB, "*": token.MUL, "/": token.QUO, "%": token.REM,
	"&": token.AND, "|": token.OR, "^": token.XOR, "<<": token.SHL, ">>": token.SHR, "&^": token.AND_NOT,
}

// foldCall folds the few pure library calls whose value on constants is
// needed when a table is evaluated on enumerated constants.
func (u *U) foldCall(name string, args []*E, typ types.Type) *E {
	switch name {
	case "math.Min", "math.Max":
		if len(args) == 2 && args[0].IsConst() && args[1].IsConst() {
			a, b := constant.ToFloat(args[0].Const), constant.ToFloat(args[1].Const)
			if a.Kind() == constant.Float && b.Kind() == constant.Float {
				lt := constant.Compare(a, token.LSS, b)
				if (name == "math.Min") == lt {
					return u.ConstVal(a, typ)
				}
				return u.ConstVal(b, typ)
			}
		}
	case "builtin.min", "builtin.max":
		if len(args) == 2 && args[0].IsConst() && args[1].IsConst() {
			lt := constant.Compare(args[0].Const, token.LSS, args[1].Const)
			if (name == "builtin.min") == lt {
				return args[0]
			}
			return args[1]
		}
	case "strings.Index", "strings.LastIndex", "strings.IndexAny", "strings.LastIndexAny", "strings.Count":
		if len(args) == 2 {
			a, ok1 := args[0].StrVal()
			b, ok2 := args[1].StrVal()
			if ok1 && ok2 {
				var r int
				switch name {
				case "strings.Index":
					r = strings.Index(a, b)
				case "strings.LastIndex":
					r = strings.LastIndex(a, b)
				case "strings.IndexAny":
					r = strings.IndexAny(a, b)
				case "strings.LastIndexAny":
					r = strings.LastIndexAny(a, b)
				case "strings.Count":
					r = strings.Count(a, b)
				}
				return u.ConstVal(constant.MakeInt64(int64(r)), types.Typ[types.Int])
			}
		}
	case "strings.IndexByte", "strings.LastIndexByte":
		if len(args) == 2 {
			a, ok1 := args[0].StrVal()
			b, ok2 := args[1].IntVal()
			if ok1 && ok2 && b >= 0 && b < 256 {
				r := strings.IndexByte(a, byte(b))
				if name == "strings.LastIndexByte" {
					r = strings.LastIndexByte(a, byte(b))
				}
				return u.ConstVal(constant.MakeInt64(int64(r)), types.Typ[types.Int])
			}
		}
	case "strings.HasPrefix", "strings.HasSuffix", "strings.Contains", "strings.ContainsAny", "strings.EqualFold":
		if len(args) == 2 {
			a, ok1 := args[0].StrVal()
			b, ok2 := args[1].StrVal()
			if ok1 && ok2 {
				var r bool
				switch name {
				case "strings.HasPrefix":
					r = strings.HasPrefix(a, b)
				case "strings.HasSuffix":
					r = strings.HasSuffix(a, b)
				case "strings.Contains":
					r = strings.Contains(a, b)
				case "strings.ContainsAny":
					r = strings.ContainsAny(a, b)
				case "strings.EqualFold":
					r = strings.EqualFold(a, b)
				}
				return u.Bool(boolRef(r))
			}
		}
	case "strings.ToLower", "strings.ToUpper", "strings.TrimSpace":
		if len(args) == 1 {
			if a, ok := args[0].StrVal(); ok {
				switch name {
				case "strings.ToLower":
					return u.Str(strings.ToLower(a))
				case "strings.ToUpper":
					return u.Str(strings.ToUpper(a))
				default:
					return u.Str(strings.TrimSpace(a))
				}
			}
		}
	case "math/bits.OnesCount64", "math/bits.OnesCount32", "math/bits.OnesCount":
		if len(args) == 1 {
			if v, ok := args[0].IntVal(); ok {
				n := 0
				for x := uint64(v); x != 0; x &= x - 1 {
					n++
				}
				return u.ConstVal(constant.MakeInt64(int64(n)), typ)
			}
		}
	}
	return nil
}

// liftOver decides whether a comparison is distributed over the branches of
// the if-then-else x: only when the other operand is a constant/nil (the
// branches then usually fold) or when x selects between constants/nil.  This
// keeps comparisons of two computed keys a single atom.
func liftOver(x, other *E) bool {
	if other.IsConst() || other.IsNil() || other.Op == "bool" {
		return true
	}
	// a selection among constants (nested selections included, up to 64 alternatives): a rank
	return constLeaves(x, 64) > 0 && (other.Op != "ite" || constLeaves(other, 64) > 0)
}

// constLeaves counts the alternatives of a (nested) selection if all of them are constants and
// there are at most max of them; 0 otherwise.
func constLeaves(e *E, max int) int {
	if e.IsConst() || e.IsNil() {
		return 1
	}
	if e.Op != "ite" || max <= 1 {
		return 0
	}
	a := constLeaves(e.Args[0], max-1)
	if a == 0 {
		return 0
	}
	b := constLeaves(e.Args[1], max-a)
	if b == 0 {
		return 0
	}
	return a + b
}

// Collect returns every distinct sub-expression of e (including inside
// conditions) satisfying pred.
func (u *U) Collect(e *E, pred func(*E) bool) []*E {
	var out []*E
	u.Mentions(e, func(x *E) bool {
		if pred(x) {
			out = append(out, x)
		}
		return false
	})
	return out
}

// ---- library normal forms ----
//
// Equivalent spellings of the same string operation are reduced to one form so
// that a rule stated over one spelling accepts the others:
//   strings.IndexByte(s, 'c')      -> strings.Index(s, "c")
//   strings.Cut(s, sep)            -> (s[:i] | s, s[i+len(sep):] | "", i >= 0)  with i = strings.Index(s, sep)
//   strings.CutPrefix/TrimPrefix   -> s[len(p):] if strings.HasPrefix(s, p) else s
//   strings.CutSuffix/TrimSuffix   -> s[:len(s)-len(p)] if strings.HasSuffix(s, p) else s
//   x[a:][lo:hi]                   -> x[a+lo:a+hi];   x[0:] -> x;   x[lo:len(x)] -> x[lo:]
//   index-like results (>= -1):    i == -1, i <= -1  -> i < 0;   i != -1, i > -1, i >= 0 -> !(i < 0)

// indexLike reports whether e is the result of a search that returns -1 or a
// valid index.
func indexLike(e *E) bool {
	if e.Op != "call" {
		return false
	}
	switch e.Aux {
	case "strings.Index", "strings.IndexByte", "strings.IndexRune", "strings.IndexAny", "strings.IndexFunc",
		"strings.LastIndex", "strings.LastIndexByte", "strings.LastIndexAny", "strings.LastIndexFunc",
		"bytes.Index", "bytes.IndexByte", "bytes.IndexRune", "bytes.IndexAny", "bytes.IndexFunc",
		"bytes.LastIndex", "bytes.LastIndexByte", "slices.Index", "slices.IndexFunc":
		return true
	}
	return false
}

// LibCall builds a call of a side-effect-free library function in normal form.
func (u *U) LibCall(name string, typ types.Type, args ...*E) *E {
	if v := u.foldCall(name, args, typ); v != nil {
		return v
	}
	strT := types.Typ[types.String]
	intT := types.Typ[types.Int]
	boolT := types.Typ[types.Bool]
	switch name {
	case "strings.IndexByte":
		if len(args) == 2 {
			if c, ok := args[1].IntVal(); ok && c >= 0 && c < 128 {
				return u.mk("call", "strings.Index", intT, args[0], u.Str(string(rune(c))))
			}
		}
	case "strings.LastIndexByte":
		if len(args) == 2 {
			if c, ok := args[1].IntVal(); ok && c >= 0 && c < 128 {
				return u.mk("call", "strings.LastIndex", intT, args[0], u.Str(string(rune(c))))
			}
		}
	case "builtin.min", "builtin.max":
		// min(x, K) is the capping idiom "if K < x { K } else { x }"
		if len(args) == 2 && isIntLike(args[0]) && isIntLike(args[1]) {
			a, b := args[0], args[1]
			if a.IsConst() && !b.IsConst() {
				a, b = b, a
			} else if !a.IsConst() && !b.IsConst() && a.key > b.key {
				a, b = b, a
			}
			if name == "builtin.min" {
				return u.ITE(u.ToBool(u.Lt(b, a)), b, a)
			}
			return u.ITE(u.ToBool(u.Lt(a, b)), b, a)
		}
	case "strings.HasPrefix", "strings.HasSuffix":
		// a one-byte pattern is a test of the first / last byte
		if len(args) == 2 {
			if p, ok := args[1].StrVal(); ok && len(p) == 1 && p[0] < 128 {
				str := args[0]
				var pos *E = u.Int(0)
				if name == "strings.HasSuffix" {
					pos = u.Bin(token.SUB, u.Len(str), u.Int(1), intT)
				}
				ch := u.mk("index", "", types.Typ[types.Uint8], str, pos)
				nonEmpty := u.bdd.Not(u.ToBool(u.Eq(u.Len(str), u.Int(0))))
				return u.Bool(u.bdd.And(nonEmpty, u.ToBool(u.Eq(ch, u.ConstVal(constant.MakeInt64(int64(p[0])), types.Typ[types.Uint8])))))
			}
			if p, ok := args[1].StrVal(); ok && p == "" {
				return u.Bool(True)
			}
		}
	case "strings.Cut":
		if len(args) == 2 {
			s, sep := args[0], args[1]
			i := u.LibCall("strings.Index", intT, s, sep)
			miss := u.ToBool(u.Lt(i, u.Int(0)))
			before := u.ITE(miss, s, u.Slice(s, nil, i, nil, strT))
			after := u.ITE(miss, u.Str(""), u.Slice(s, u.Bin(token.ADD, i, u.Len(sep), intT), nil, nil, strT))
			return u.mk("tuple", "", typ, before, after, u.Bool(u.bdd.Not(miss)))
		}
	case "strings.CutPrefix", "strings.TrimPrefix":
		if len(args) == 2 {
			s, p := args[0], args[1]
			h := u.ToBool(u.LibCall("strings.HasPrefix", boolT, s, p))
			rest := u.ITE(h, u.Slice(s, u.Len(p), nil, nil, strT), s)
			if name == "strings.TrimPrefix" {
				return rest
			}
			return u.mk("tuple", "", typ, rest, u.Bool(h))
		}
	case "strings.CutSuffix", "strings.TrimSuffix":
		if len(args) == 2 {
			s, p := args[0], args[1]
			h := u.ToBool(u.LibCall("strings.HasSuffix", boolT, s, p))
			rest := u.ITE(h, u.Slice(s, nil, u.Bin(token.SUB, u.Len(s), u.Len(p), intT), nil, strT), s)
			if name == "strings.TrimSuffix" {
				return rest
			}
			return u.mk("tuple", "", typ, rest, u.Bool(h))
		}
	}
	return u.mk("call", name, typ, args...)
}

// Slice builds x[lo:hi:max] in normal form (nil bounds are the defaults).
func (u *U) Slice(x, lo, hi, mx *E, typ types.Type) *E {
	// if-then-else operands: the selection moves to the top
	if x.Op == "ite" {
		return u.ITE(x.B, u.Slice(x.Args[0], lo, hi, mx, typ), u.Slice(x.Args[1], lo, hi, mx, typ))
	}
	if lo != nil && lo.Op == "ite" {
		return u.ITE(lo.B, u.Slice(x, lo.Args[0], hi, mx, typ), u.Slice(x, lo.Args[1], hi, mx, typ))
	}
	if hi != nil && hi.Op == "ite" {
		return u.ITE(hi.B, u.Slice(x, lo, hi.Args[0], mx, typ), u.Slice(x, lo, hi.Args[1], mx, typ))
	}
	if lo != nil {
		if v, ok := lo.IntVal(); ok && v == 0 {
			lo = nil
		}
	}
	if hi != nil && hi == u.Len(x) {
		hi = nil
	}
	if mx == nil && x.Op == "slice" && x.Args[3] == nil && types.Identical(x.Typ, typ) {
		// x = y[a:b];  y[a:b][lo:hi] = y[a+lo : a+hi]  (hi defaults to b)
		y, a, b := x.Args[0], x.Args[1], x.Args[2]
		nlo := a
		if lo != nil {
			if a == nil {
				nlo = lo
			} else {
				nlo = u.Bin(token.ADD, a, lo, types.Typ[types.Int])
			}
		}
		nhi := b
		if hi != nil {
			if a == nil {
				nhi = hi
			} else {
				nhi = u.Bin(token.ADD, a, hi, types.Typ[types.Int])
			}
		}
		return u.Slice(y, nlo, nhi, nil, typ)
	}
	if lo == nil && hi == nil && mx == nil && x.Typ != nil && typ != nil && types.Identical(x.Typ, typ) {
		return x
	}
	if s, ok := x.StrVal(); ok {
		l, h := int64(0), int64(len(s))
		okc := true
		if lo != nil {
			l, okc = lo.IntVal()
		}
		if hi != nil && okc {
			h, okc = hi.IntVal()
		}
		if okc && 0 <= l && l <= h && h <= int64(len(s)) {
			return u.Str(s[l:h])
		}
	}
	return u.mk("slice", "", typ, x, lo, hi, mx)
}

func isIntLikeT(t types.Type) bool {
	if t == nil {
		return false
	}
	b, ok := t.Underlying().(*types.Basic)
	return ok && b.Info()&types.IsInteger != 0
}

// linNorm rebuilds a ± b as: (sum of the positive terms in key order) + c
// - (negative terms in key order) - c', flattening nested sums of the same
// type.  Two-term cases keep the shape they always had (c+x, x-c, x-y).
func (u *U) linNorm(op token.Token, a, b *E, typ types.Type) *E {
	coef := map[*E]int64{}
	var order []*E
	var k int64
	okAll := true
	var flat func(e *E, sign int64)
	flat = func(e *E, sign int64) {
		if v, ok := e.IntVal(); ok && e.IsConst() {
			k += sign * v
			return
		}
		if e.Op == "bin" && (e.Aux == "+" || e.Aux == "-") && e.Typ != nil && types.Identical(e.Typ, typ) {
			flat(e.Args[0], sign)
			if e.Aux == "+" {
				flat(e.Args[1], sign)
			} else {
				flat(e.Args[1], -sign)
			}
			return
		}
		if e.Op == "ite" {
			okAll = false
		}
		if _, seen := coef[e]; !seen {
			order = append(order, e)
		}
		coef[e] += sign
	}
	flat(a, 1)
	if op == token.ADD {
		flat(b, 1)
	} else {
		flat(b, -1)
	}
	if !okAll {
		return nil
	}
	if bt, ok := typ.Underlying().(*types.Basic); ok {
		k = wrapInt64(k, bt)
	}
	sort.Slice(order, func(i, j int) bool { return order[i].key < order[j].key })
	raw := func(op token.Token, x, y *E) *E {
		if op == token.ADD && x.key > y.key {
			x, y = y, x
		}
		return u.mk("bin", op.String(), typ, x, y)
	}
	term := func(e *E, c int64) *E {
		if c == 1 {
			return e
		}
		return u.Bin(token.MUL, u.ConstVal(constant.MakeInt64(c), typ), e, typ)
	}
	var acc *E
	for _, e := range order {
		if c := coef[e]; c > 0 {
			t := term(e, c)
			if acc == nil {
				acc = t
			} else {
				acc = raw(token.ADD, acc, t)
			}
		}
	}
	if k > 0 || acc == nil {
		kc := u.ConstVal(constant.MakeInt64(k), typ)
		if acc == nil {
			acc = kc
		} else {
			acc = raw(token.ADD, acc, kc)
		}
		k = 0
	}
	for _, e := range order {
		if c := coef[e]; c < 0 {
			acc = raw(token.SUB, acc, term(e, -c))
		}
	}
	if k < 0 {
		acc = raw(token.SUB, acc, u.ConstVal(constant.MakeInt64(-k), typ))
	}
	return acc
}

func wrapInt64(v int64, bt *types.Basic) int64 {
	w := wrapInt(constant.MakeInt64(v), bt)
	if x, ok := constant.Int64Val(w); ok {
		return x
	}
	return v
}

// Zero is the zero value of type t.
func (u *U) Zero(t types.Type) *E {
	switch b := t.Underlying().(type) {
	case *types.Basic:
		switch {
		case b.Info()&types.IsBoolean != 0:
			return u.Bool(False)
		case b.Info()&types.IsString != 0:
			return u.ConstVal(constant.MakeString(""), t)
		case b.Info()&types.IsNumeric != 0:
			return u.ConstVal(constant.MakeInt64(0), t)
		}
	case *types.Struct:
		return u.mk("zero", typeStr(t), t)
	}
	return u.mk("nil", "", t)
}

// Specialize rebuilds e on the paths described by care: every selection (also
// one nested inside an operation) whose condition is decided by care is
// replaced by the selected alternative.
func (u *U) Specialize(e *E, care Ref) *E {
	memo := map[*E]*E{}
	var rec func(x *E) *E
	// conditions: restricted to care, and the operands of their atoms specialised too
	recB := func(b Ref) Ref {
		b = u.bdd.Restrict(b, care)
		for _, v := range u.bdd.Support(b) {
			at := u.atoms[v]
			if len(at.Args) == 0 {
				continue
			}
			nat := rec(at)
			if nat != at {
				b = u.bdd.Compose(b, v, u.ToBool(nat))
			}
		}
		return b
	}
	rec = func(x *E) *E {
		if x == nil {
			return nil
		}
		if r, ok := memo[x]; ok {
			return r
		}
		var out *E
		switch x.Op {
		case "ite":
			switch {
			case u.bdd.Implies(care, x.B):
				out = rec(x.Args[0])
			case u.bdd.Implies(care, u.bdd.Not(x.B)):
				out = rec(x.Args[1])
			default:
				out = u.ITE(recB(x.B), rec(x.Args[0]), rec(x.Args[1]))
			}
		case "bool":
			out = u.Bool(recB(x.B))
		default:
			if len(x.Args) == 0 {
				out = x
			} else {
				args := make([]*E, len(x.Args))
				changed := false
				for i, a := range x.Args {
					args[i] = rec(a)
					if args[i] != a {
						changed = true
					}
				}
				if changed {
					out = u.rebuild(x, args)
				} else {
					out = x
				}
			}
		}
		memo[x] = out
		return out
	}
	return rec(e)
}

// NestedSelectors lists the atoms that decide selections nested inside
// operations of e (not the outer if-then-else chain).
func (u *U) NestedSelectors(e *E) []int {
	set := map[int]bool{}
	seen := map[*E]bool{}
	var rec func(x *E, top bool)
	rec = func(x *E, top bool) {
		if x == nil || (seen[x] && !top) {
			return
		}
		seen[x] = true
		if x.Op == "ite" {
			if !top {
				for _, v := range u.bdd.Support(x.B) {
					set[v] = true
				}
			}
			rec(x.Args[0], top)
			rec(x.Args[1], top)
			return
		}
		for _, a := range x.Args {
			rec(a, false)
		}
	}
	rec(e, true)
	var out []int
	for v := range set {
		out = append(out, v)
	}
	sort.Ints(out)
	return out
}

// CaseSplit returns e specialised for every valuation of its nested selectors
// (at most 4 of them; otherwise e itself).
func (u *U) CaseSplit(e *E) []*E {
	sel := u.NestedSelectors(e)
	if os.Getenv("UFCHECK_DEBUG_SPLIT") != "" {
		fmt.Fprintf(os.Stderr, "CaseSplit: %d nested selectors\n", len(sel))
		for _, v := range sel {
			fmt.Fprintf(os.Stderr, "   %s\n", clipS(u.Show(u.atoms[v]), 200))
		}
	}
	if len(sel) == 0 || len(sel) > 8 {
		return []*E{e}
	}
	var out []*E
	seen := map[*E]bool{}
	for m := 0; m < 1<<len(sel); m++ {
		care := True
		for i, v := range sel {
			lit := u.bdd.Var(v)
			if m&(1<<i) == 0 {
				lit = u.bdd.Not(lit)
			}
			care = u.bdd.And(care, lit)
		}
		if care == False {
			continue
		}
		x := u.Specialize(e, care)
		if !seen[x] {
			seen[x] = true
			out = append(out, x)
		}
	}
	return out
}

// Index builds x[i]; an element of an array value at a constant position is
// the element itself.
func (u *U) Index(x, i *E, typ types.Type) *E {
	if x.Op == "ite" {
		return u.ITE(x.B, u.Index(x.Args[0], i, typ), u.Index(x.Args[1], i, typ))
	}
	if x.Op == "array" {
		if k, ok := i.IntVal(); ok && k >= 0 && k < int64(len(x.Args)) {
			return x.Args[k]
		}
	}
	return u.mk("index", "", typ, x, i)
}

// Un builds a unary arithmetic operation (-x, ^x) with constant folding.
func (u *U) Un(op string, x *E, typ types.Type) *E {
	if x.Op == "ite" {
		return u.ITE(x.B, u.Un(op, x.Args[0], typ), u.Un(op, x.Args[1], typ))
	}
	if v, ok := x.IntVal(); ok && x.IsConst() && typ != nil {
		if bt, isB := typ.Underlying().(*types.Basic); isB && bt.Info()&types.IsInteger != 0 {
			var r constant.Value
			switch op {
			case "^":
				r = constant.MakeInt64(^v)
			case "-":
				r = constant.MakeInt64(-v)
			}
			if r != nil {
				return u.ConstVal(wrapInt(r, bt), typ)
			}
		}
	}
	return u.mk("un", op, typ, x)
}
