package main

// C13 — query results are a pure function of the lists and the request.

import (
	"fmt"
	"go/token"
	"go/types"
	"sort"
	"strings"

	"golang.org/x/tools/go/ssa"
)

func init() {
	register(&PropDef{
		ID:  "C13",
		Run: runC13,
		Explanation: "Static purity audit (EFF ownership analysis). R1: in every library function reachable from an engine query, a retrieval helper or a result getter, each store, map update, append or in-place library call targets memory allocated by the query itself " +
			"(or the pooled request handed out for exclusive use); the only writes to shared memory are the declared memo states — the storage's rule cache (keyed by the retrieved index), the rule's lazily compiled pattern and invalid flag, " +
			"the file list's read position and buffer inside its retriever — each a deterministic function of immutable data. R2: every field of the pooled rules.Request is stored unconditionally between pool.Get and the first use, " +
			"so nothing of the previous query survives. R3: no append/in-place operation on a slice that shares its backing array with caller- or engine-owned memory (capacity-capped reslices accepted). R4: the slices in returned results are fresh. R6: query code builds no sequence and picks no element by ranging over a map (iteration order is randomised). sync/atomic and sync.Map mutators on cells that reachable code reads back count as writes; an element loaded from a collection of references is fresh only if everything put into the collection was. The map field of a struct received by value is shared memory (its update is reported with the field it belongs to).",
		Trusted:     []string{"'no shared write other than a deterministic memo implies the answer is independent of the query history' (the argument is not re-proved)", "parameter freshness is the conjunction over all call sites inside the library; exported functions get non-fresh parameters"},
		Assumptions: []string{"the equality of answers across histories is derived, never observed (no execution in this technique family)"},
	})
}

func queryRoots(c *Ctx) []*ssa.Function {
	var roots []*ssa.Function
	add := func(f *ssa.Function) {
		if f != nil && f.Blocks != nil {
			roots = append(roots, f)
		}
	}
	for _, m := range [][3]string{
		{"", "NetworkEngine", "Match"}, {"", "NetworkEngine", "MatchAll"}, {"", "DNSEngine", "Match"}, {"", "DNSEngine", "MatchRequest"},
		{"", "Engine", "MatchRequest"}, {"", "Engine", "GetCosmeticResult"}, {"", "CosmeticEngine", "Match"},
		{"", "DNSResult", "DNSRewrites"}, {"", "DNSResult", "DNSRewritesAll"},
		{"filterlist", "RuleStorage", "RetrieveRule"}, {"filterlist", "RuleStorage", "RetrieveNetworkRule"}, {"filterlist", "RuleStorage", "RetrieveHostRule"},
		{"rules", "MatchingResult", "GetBasicResult"}, {"rules", "MatchingResult", "GetCosmeticOption"},
		{"rules", "NetworkRule", "Match"}, {"rules", "HostRule", "Match"}, {"rules", "CosmeticRule", "Match"}, {"rules", "NetworkRule", "IsHigherPriority"},
	} {
		add(c.P.Method(m[0], m[1], m[2]))
	}
	for _, n := range []string{"NewMatchingResult", "GetDNSBasicRule", "NewRequest", "NewRequestForHostname"} {
		add(c.P.Func("rules", n))
	}
	return roots
}

// allowedMemo: write -> reason.
// ruleCacheField locates the storage's rule cache by what it is: the struct
// field of package filterlist that maps storage indexes to rules.  It sits in
// RuleStorage today; a type of its own holding the map and its mutex is the
// same state.  mus are the mutex fields of the owning struct (of RuleStorage
// if the owner has none).
func ruleCacheField(p *Prog) (owner, field string, mus []string) {
	owner, field = "RuleStorage", "cache"
	pk := p.Pkgs[pkgPath("filterlist")]
	if pk == nil {
		return owner, field, []string{"cacheMu"}
	}
	musOf := func(st *types.Struct) []string {
		var out []string
		for i := 0; i < st.NumFields(); i++ {
			t := typeStr(st.Field(i).Type())
			if strings.HasSuffix(t, "sync.RWMutex") || strings.HasSuffix(t, "sync.Mutex") {
				out = append(out, st.Field(i).Name())
			}
		}
		return out
	}
	var found [][2]string
	byName := map[string]*types.Struct{}
	names := pk.Types.Scope().Names()
	sort.Strings(names)
	for _, n := range names {
		tn, ok := pk.Types.Scope().Lookup(n).(*types.TypeName)
		if !ok {
			continue
		}
		st, ok := tn.Type().Underlying().(*types.Struct)
		if !ok {
			continue
		}
		byName[n] = st
		for i := 0; i < st.NumFields(); i++ {
			if typeStr(st.Field(i).Type()) == "map[int64]rules.Rule" {
				found = append(found, [2]string{n, st.Field(i).Name()})
			}
		}
	}
	if len(found) == 1 {
		owner, field = found[0][0], found[0][1]
	}
	if st := byName[owner]; st != nil {
		mus = musOf(st)
	}
	if len(mus) == 0 {
		if st := byName["RuleStorage"]; st != nil {
			mus = musOf(st)
		}
	}
	return owner, field, mus
}

func allowedMemo(p *Prog, w Write) (string, bool) {
	cOwner, cField, _ := ruleCacheField(p)
	switch {
	case w.Kind == "mapupdate" && w.What == "filterlist."+cOwner+"."+cField && inGroupOf(p, w.Fn, p.Method("filterlist", "RuleStorage", "RetrieveRule")):
		return "rule cache: value = the rule parsed from the list at that index, key = the index (C19.R4)", true
	case w.Kind == "store" && (w.What == "rules.NetworkRule.regex" || w.What == "rules.NetworkRule.invalid") && inGroupOf(p, w.Fn, p.Method("rules", "NetworkRule", "preparePattern")):
		return "lazily compiled pattern / invalid flag: a function of the immutable pattern and options (C03.R5/R6)", true
	}
	return "", false
}

func runC13(c *Ctx) {
	c.Rule("C13.R1", "EFF", "queries write only memory they allocate, the pooled request and the declared memo states", 3)
	c.Rule("C13.R2", "COV", "every field of the pooled request is overwritten unconditionally", 14)
	c.Rule("C13.R3", "EFF", "no append / in-place operation on slices that alias caller- or engine-owned memory", 1)
	c.Rule("C13.R4", "EFF", "result slices are freshly allocated", 4)

	roots := queryRoots(c)
	if len(roots) < 20 {
		c.Fail("C13.R1", "anchor:query roots", token.NoPos, fmt.Sprintf("only %d query entry points resolved", len(roots)))
	}
	e := effOf(c)
	ws := e.WritesFrom(roots...)
	reach := c.P.Reachable(roots...)
	n := 0
	for f := range reach {
		if c.P.IsLibFunc(f) {
			n++
			c.Fn(FuncName(f))
		}
	}
	c.Extra["functions_reachable_from_queries"] = n
	memoSeen := map[string]bool{}
	nAlias := 0
	for _, w := range ws {
		key := fmt.Sprintf("%s: %s of %s", shortFn(w.Fn), w.Kind, w.What)
		if why, ok := allowedMemo(c.P, w); ok {
			memoSeen[w.What] = true
			c.OK("C13.R1", key, w.Instr.Pos(), "declared memo state: "+why)
			continue
		}
		if w.Kind == "append" || w.Kind == "inplace" || (w.Kind == "store" && w.What == "element") {
			nAlias++
			c.Fail("C13.R3", key, w.Instr.Pos(), w.Desc+": the caller's (or the engine's) slice is modified, so an earlier result or a later query sees different data")
			continue
		}
		c.Fail("C13.R1", key, w.Instr.Pos(), w.Desc+": evaluating a query or a derived result changes state that later queries (or earlier results) observe")
	}
	c.Check(nAlias == 0, "C13.R3", "no aliasing append / in-place operation reachable from a query", token.NoPos, fmt.Sprintf("%d library functions reachable from %d entry points", n, len(roots)), "see the sites listed above")
	cOwner, cField, _ := ruleCacheField(c.P)
	for _, m := range []string{"filterlist." + cOwner + "." + cField, "rules.NetworkRule.regex"} {
		if !memoSeen[m] {
			c.Notes = append(c.Notes, "memo state "+m+" is no longer written from a query")
		}
	}

	// ---------- R6: no map iteration order in an answer ----------
	{
		c.Rule("C13.R6", "ITER", "query code never builds a sequence or picks an element by ranging over a map (iteration order differs from run to run)", 0)
		nm := 0
		var fns []*ssa.Function
		for f := range reach {
			if c.P.IsLibFunc(f) && f.Blocks != nil {
				fns = append(fns, f)
			}
		}
		sort.Slice(fns, func(i, j int) bool { return FuncName(fns[i]) < FuncName(fns[j]) })
		for _, f := range fns {
			eachInstr(f, func(_ *ssa.BasicBlock, in ssa.Instruction) {
				rg, ok := in.(*ssa.Range)
				if !ok {
					return
				}
				if _, isMap := rg.X.Type().Underlying().(*types.Map); !isMap {
					return
				}
				// order matters when the body builds a sequence or leaves early; counting, summing and
				// filling another map do not depend on the order
				orderSensitive := false
				for _, l := range loopsOf(f) {
					isThis := false
					for _, hi := range l.Header.Instrs {
						if nx, ok := hi.(*ssa.Next); ok && nx.Iter == ssa.Value(rg) {
							isThis = true
						}
					}
					if !isThis {
						continue
					}
					if !onlyExhaustionExit(l) {
						orderSensitive = true
					}
					for b := range l.Blocks {
						for _, bi := range b.Instrs {
							if cl, ok := bi.(*ssa.Call); ok {
								if bt, ok := cl.Call.Value.(*ssa.Builtin); ok && bt.Name() == "append" {
									orderSensitive = true
								}
							}
							if _, ok := bi.(*ssa.Return); ok {
								orderSensitive = true
							}
						}
					}
				}
				if !orderSensitive {
					return
				}
				nm++
				c.Fail("C13.R6", shortFn(f)+": range over a map", rg.Pos(), "a query ranges over a map: Go randomises the iteration order, so the order of the collected rules (and with it every tie broken by position) differs between identical queries")
			})
		}
		if nm == 0 {
			c.OK("C13.R6", "no map iteration reachable from a query", token.NoPos, fmt.Sprintf("%d functions inspected", len(fns)))
		}
	}

	importRules(c, runC11, map[string]string{"C11.R4": "C13.R5"}, map[string]string{"C13.R5": "the memo states are deterministic functions of the lists: file retrieval reads exactly the stored line, the cache is keyed by the retrieved index (shared with C11.R4 / C19.R4)"})
	importRules(c, runC19, map[string]string{"C19.R4": "C13.R5"}, nil)

	// ---------- R2 ----------
	reqT := c.P.Type("rules", "Request")
	// The pooled request of a DNS query: evaluated from MatchRequest with the refill code
	// expanded (a helper returning the request, or Get in place followed by a fill function).
	mrq := c.P.Method("", "DNSEngine", "MatchRequest")
	if reqT == nil || mrq == nil {
		c.Fail("C13.R2", "anchor:pool refill", token.NoPos, "unresolved anchor: DNSEngine.MatchRequest / rules.Request")
	} else {
		g := NewGate(c.P)
		g.Inline = func(_, callee *ssa.Function, depth int) bool {
			if depth > 3 {
				return false
			}
			sig := callee.Signature
			// the refill helper(s): return the request, or take it as (first) parameter / receiver
			if sig.Results().Len() == 1 && typeStr(sig.Results().At(0).Type()) == "*rules.Request" {
				return true
			}
			// ... and writes its fields (a fill function), unlike the matchers that only read it
			for i, p := range callee.Params {
				if typeStr(p.Type()) != "*rules.Request" {
					continue
				}
				_ = i
				writes := false
				eachInstr(callee, func(_ *ssa.BasicBlock, in ssa.Instruction) {
					if st, ok := in.(*ssa.Store); ok {
						if fa, ok := st.Addr.(*ssa.FieldAddr); ok && fa.X == ssa.Value(p) {
							writes = true
						}
					}
					if ci, ok := in.(ssa.CallInstruction); ok {
						// hands the request on to another fill function
						for _, a := range ci.Common().Args {
							if a == ssa.Value(p) {
								if cal := ci.Common().StaticCallee(); cal != nil && c.P.IsLibFunc(cal) && strings.Contains(cal.Name(), "Fill") {
									writes = true
								}
							}
						}
					}
				})
				if writes {
					return true
				}
			}
			return false
		}
		s := g.Eval(mrq)
		u := g.U
		c.Fn(sortedKeys(g.Funcs)...)
		// the request is what the network engine is queried with
		var req *E
		useIdx := len(s.Effects)
		for i, ef := range s.Effects {
			if ef.Kind == "call" && strings.HasSuffix(ef.Call.Aux, "NetworkEngine).MatchAll") && len(ef.Call.Args) >= 2 {
				req = ef.Call.Args[1]
				useIdx = i
				break
			}
		}
		stored := map[string]Ref{}
		for i, ef := range s.Effects {
			if i >= useIdx || req == nil {
				break
			}
			if ef.Kind == "store" && ef.Addr.Op == "faddr" && ef.Addr.Args[0] == req {
				stored[ef.Addr.Aux] = u.bdd.Or(stored[ef.Addr.Aux], ef.Cond)
			}
			if ef.Kind == "store" && ef.Addr == req {
				// *req = Request{...}: every field is overwritten at once
				for _, f := range structFields(reqT) {
					stored[f] = u.bdd.Or(stored[f], ef.Cond)
				}
			}
		}
		// conditions are relative to the point where the request is used
		useCond := True
		if useIdx < len(s.Effects) {
			useCond = s.Effects[useIdx].Cond
		}
		for f, cnd := range stored {
			if u.bdd.Implies(useCond, cnd) {
				stored[f] = True
			}
		}
		isPool := req != nil && req.Op == "call" && strings.Contains(req.Aux, "Pool") && strings.HasSuffix(strings.TrimSuffix(req.Aux, ")"), ".Get") || (req != nil && strings.Contains(req.key, ".Get"))
		if !isPool {
			c.Notes = append(c.Notes, "the refill function does not take the request from a pool: "+clip(u.Show(req), 80))
		}
		fields := structFields(reqT)
		sort.Strings(fields)
		for _, f := range fields {
			cnd, ok := stored[f]
			key := "pooled request: field Request." + f + " is reset for every query"
			switch {
			case !ok:
				c.Fail("C13.R2", key, mrq.Pos(), "the field is never stored between pool.Get and the first use: the value of the previous query (another client, another request) leaks into this one")
			case cnd != True:
				c.Fail("C13.R2", key, mrq.Pos(), "the field is stored only when "+clip(u.ShowBool(cnd), 160)+": otherwise the value of the previous query leaks into this one")
			default:
				c.OK("C13.R2", key, mrq.Pos(), "stored unconditionally")
			}
		}
	}

	// ---------- R4 ----------
	for _, m := range [][3]string{{"", "NetworkEngine", "MatchAll"}, {"", "DNSResult", "DNSRewrites"}, {"", "DNSResult", "DNSRewritesAll"}, {"rules", "", "NewMatchingResult"}, {"", "DNSEngine", "MatchRequest"}} {
		var fn *ssa.Function
		if m[1] == "" {
			fn = c.P.Func(m[0], m[2])
		} else {
			fn = c.P.Method(m[0], m[1], m[2])
		}
		if fn == nil {
			c.Fail("C13.R4", "anchor:"+m[1]+"."+m[2], token.NoPos, "unresolved anchor")
			continue
		}
		rf := e.retFresh[fn]
		ok := true
		for i, r := range rf {
			if isRefType(fn.Signature.Results().At(i).Type()) && !r {
				ok = false
			}
		}
		c.Check(ok, "C13.R4", shortFn(fn)+": returned slices/objects are allocated by the call", fn.Pos(), "every return value is fresh (nil, appends from nil, new objects)",
			"a query returns memory owned by the engine or by an earlier result: a caller that modifies it changes later answers")
	}
	_ = types.Typ
}
