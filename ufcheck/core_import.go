package main

// importRules runs the rule set of another property on a child context and
// imports the obligations of the selected rules under a rule id of the
// current property.  Several properties rest on the same helper functions
// (the line reader, the badfilter filter, the pattern compiler, ...): a
// change that breaks such a helper breaks all of them, so each of them
// re-states the shared clause instead of pointing at another check.
func importRules(c *Ctx, fn PropFn, mapping map[string]string, what map[string]string) {
	importRules1(c, fn, mapping, what, true)
}

func importRules1(c *Ctx, fn PropFn, mapping map[string]string, what map[string]string, noRec bool) {
	if c.noImports {
		return
	}
	child := NewCtx(c.Prop, c.Tier, c.P)
	child.noImports = noRec
	child.Known = nil
	if e, ok := c.Extra["__eff"]; ok {
		child.Extra["__eff"] = e
	}
	func() {
		defer func() {
			if r := recover(); r != nil {
				for _, to := range mapping {
					if _, ok := c.Rules[to]; !ok {
						c.Rule(to, "SHARED", what[to], 0)
					}
					c.Fail(to, "shared rule set", 0, "analysis of the shared clause panicked (fail closed)")
					break
				}
			}
		}()
		fn(child)
	}()
	if e, ok := child.Extra["__eff"]; ok {
		c.Extra["__eff"] = e
	}
	for f := range child.Funcs {
		c.Funcs[f] = true
	}
	c.Paths += child.Paths
	for _, ob := range child.Obs {
		to, ok := mapping[ob.Rule]
		if !ok {
			continue
		}
		if _, declared := c.Rules[to]; !declared {
			c.Rule(to, "SHARED", what[to], 1)
		}
		c.Rules[to].Instances++
		n := *ob
		n.Rule = to
		n.Key = "[" + ob.Rule + "] " + ob.Key
		if n.st == StViolation {
			for _, k := range c.Known {
				if k.Fixed == "" && k.Property == c.Prop && k.Rule == to && k.Key == n.Key {
					n.st = StKnown
					n.Status = "known-finding"
				}
			}
		}
		c.Obs = append(c.Obs, &n)
	}
}

// importRulesNoRec is importRules for rule sets that themselves import rules:
// the child runs without its own imports (no recursion, no cycles).
func importRulesNoRec(c *Ctx, fn PropFn, mapping map[string]string, what map[string]string) {
	importRules1(c, fn, mapping, what, true)
}
