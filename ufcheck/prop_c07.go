package main

// C07 — rule priority is a strict weak order; the winner is never outranked.

import (
	"fmt"
	"go/token"
	"go/types"
	"os"
	"sort"
	"strings"

	"golang.org/x/tools/go/ssa"
)

func init() {
	register(&PropDef{
		ID:  "C07",
		Run: runC07,
		Explanation: "Static decision of C07 on the comparison function itself. The decision function of (*NetworkRule).IsHigherPriority is extracted from SSA (gated evaluation with its helpers inlined) as a BDD over opaque observables of the two operands plus " +
			"one comparison of two computed keys. R1 (SYM): both operands are observed through the same predicates, the two keys are the same multiset of terms under the substitution f<->r, and irreflexivity, asymmetry, transitivity and " +
			"transitivity of incomparability are checked by exhaustion over all abstract rules (valuation of the observables x key in {0,1,2}; three key values realise every ordering of three keys). R2: the extracted relation equals the " +
			"documented lexicographic order (verdict class, [redirect], domain-specific over generic, more modifiers over fewer). R3 (COV): every modifier field written by the option loaders is a term of the key. R4/R5 (WIRE): at every " +
			"selection site the incumbent is replaced only if nil or outranked by the candidate (receiver/argument orientation), and the scan has no early exit that returns a winner; the decision to replace reads the incumbent only through == nil, identity and the relation itself (any other test on the incumbent skips comparisons the relation would have decided). An identity pre-test (f == r) is split off and checked to answer false; comparisons of rank selections among constants are lifted into the feature logic. Nothing is executed. R6: disabledOptions is only ever or-ed into (a negated modifier must not wipe earlier ones). The key may be summed by a loop over a small fixed table of its terms (unrolled). R7 imports C04.R10 (content-type modifiers are never taken back, so each counts in the key). R4 also: a scan that keeps its incumbent in a loop-carried variable starts with nil: a first element taken as it is would bypass the tests the scan applies to its candidates.",
		Trusted: []string{
			"a left-to-right replace-if-higher scan under a strict weak order returns a maximal element for every permutation (textbook argument, not re-proved)",
			"the observables are treated as independent features of a rule; the key is treated as independent of them (over-approximation: more abstract rules than real ones)",
		},
	})
}

// sumTerms flattens an integer expression into a multiset of additive terms;
// ite(c, x+k1, x+k2) contributes x's terms plus one indicator term.
func sumTerms(u *U, e *E) []*E {
	switch {
	case e.Op == "bin" && e.Aux == "+":
		return append(sumTerms(u, e.Args[0]), sumTerms(u, e.Args[1])...)
	case e.Op == "ite":
		ta, tb := sumTerms(u, e.Args[0]), sumTerms(u, e.Args[1])
		common, ra, rb := multisetSplit(ta, tb)
		constSum := func(ts []*E) (int64, bool) {
			var s int64
			for _, t := range ts {
				v, ok := t.IntVal()
				if !ok {
					return 0, false
				}
				s += v
			}
			return s, true
		}
		va, oka := constSum(ra)
		vb, okb := constSum(rb)
		if oka && okb {
			ind := u.ITE(e.B, u.Int(va), u.Int(vb))
			return append(common, ind)
		}
		return []*E{e}
	}
	return []*E{e}
}

func multisetSplit(a, b []*E) (common, ra, rb []*E) {
	cnt := map[*E]int{}
	for _, x := range b {
		cnt[x]++
	}
	for _, x := range a {
		if cnt[x] > 0 {
			cnt[x]--
			common = append(common, x)
		} else {
			ra = append(ra, x)
		}
	}
	for _, x := range b {
		// elements of b not matched
		_ = x
	}
	used := map[*E]int{}
	for _, x := range common {
		used[x]++
	}
	for _, x := range b {
		if used[x] > 0 {
			used[x]--
		} else {
			rb = append(rb, x)
		}
	}
	return
}

func termKeys(u *U, ts []*E) []string {
	var out []string
	for _, t := range ts {
		if v, ok := t.IntVal(); ok && v == 0 {
			continue
		}
		out = append(out, u.Show(t))
	}
	sort.Strings(out)
	return out
}

func diffStrings(a, b []string) (onlyA, onlyB []string) {
	cnt := map[string]int{}
	for _, x := range b {
		cnt[x]++
	}
	for _, x := range a {
		if cnt[x] > 0 {
			cnt[x]--
		} else {
			onlyA = append(onlyA, x)
		}
	}
	for _, x := range b {
		if cnt[x] > 0 {
			cnt[x]--
			onlyB = append(onlyB, x)
		}
	}
	return
}

func runC07(c *Ctx) {
	c.Rule("C07.R1", "SYM", "order axioms of IsHigherPriority by exhaustion on the extracted decision function; same observables and same key on both operands", 4)
	c.Rule("C07.R2", "TBL", "extracted relation equals the documented lexicographic order", 1)
	c.Rule("C07.R3", "COV", "every modifier field written by the option loaders is a term of the priority key", 12)
	c.Rule("C07.R4", "WIRE", "selection sites replace the incumbent only if it is nil or the candidate is higher (receiver = candidate, argument = incumbent)", 3)
	c.Rule("C07.R6", "EFF", "the option words counted by the key are only ever or-ed into while a rule is parsed", 1)
	c.Rule("C07.R5", "WIRE", "selection scans have no early exit that returns a winner", 3)

	a := &anchors{c: c, rule: "C07.R1"}
	ihp := a.method("rules", "NetworkRule", "IsHigherPriority")
	kImp, _ := a.constInt("rules", "OptionImportant")
	kRed, _ := a.constInt("rules", "OptionRedirect")
	if a.bad {
		return
	}
	checkOptionWordMonotone(c, "C07.R6", "disabledOptions", 0,
		"a negated modifier overwrites the ones parsed before it ($~third-party,~match-case keeps only the last): the added modifier does not raise the rule, so the selected rule can be outranked")
	importRules(c, runC08, map[string]string{"C08.R1": "C07.R8", "C08.R2": "C07.R8"}, map[string]string{"C07.R8": "the candidates the selection scans are all the rules the badfilter filter leaves: a filter that stops early hands the scan a shorter list and the winner can be outranked by a dropped rule (shared with C08.R1/R2)"})
	importRules(c, runC04, map[string]string{"C04.R10": "C07.R7", "C04.R12": "C07.R7"}, map[string]string{"C07.R7": "content-type modifiers are never taken back while a rule is parsed, so each one counts in the priority key (shared with C04.R10)"})
	g := NewGate(c.P)
	g.Unroll = true // a key summed by a loop over a small fixed table of its terms
	s := g.Eval(ihp)
	u := g.U
	c.Fn(sortedKeys(g.Funcs)...)
	ps := g.ParamExprs(ihp)
	fP, rP := ps[0], ps[1]
	swap := map[string]*E{fP.key: rP, rP.key: fP}
	H := u.ToBool(g.RetExpr(s, 0))
	mentions := func(e, p *E) bool { return u.Mentions(e, func(x *E) bool { return x == p }) }

	// identity pre-test (if f == r { return false }): a rule compared with itself must not outrank;
	// for two distinct rules the decision is the remaining function
	if idE := u.Eq(fP, rP); idE.Op == "bool" {
		if vs := u.bdd.Support(idE.B); len(vs) == 1 {
			for _, v := range u.bdd.Support(H) {
				if v == vs[0] {
					onSame := u.SubstBool(u.bdd.Cofactor(H, v, idE.B == u.bdd.Var(v)), map[string]*E{rP.key: fP})
					c.Check(onSame == False, "C07.R1", "IsHigherPriority: identity pre-test", ihp.Pos(), "f == r => false", "a rule compared with itself (same pointer) can be reported as outranking itself")
					H = u.bdd.Cofactor(H, v, idE.B != u.bdd.Var(v))
				}
			}
		}
	}

	// zero-key pre-test (if key(f) == 0 { return false }): with key(f) == 0 no non-negative key is
	// smaller, so "key(r) < key(f)" is false.  Z = (key == 0) is rebuilt from the key expression of
	// the comparison; the atoms only Z contributes (the emptiness of the base sum) are eliminated
	// if, under the arithmetic fact Z => !(X < key), the function with them set to false is the
	// same function — the general path, which is what the order axioms are checked on.
	for _, cmp := range u.AtomsOf(H) {
		if cmp.Op != "lt" || !mentions(cmp, fP) || !mentions(cmp, rP) {
			continue
		}
		X, K := cmp.Args[0], cmp.Args[1]
		if !nonNegKey(u, X) || !nonNegKey(u, K) {
			continue
		}
		Z := u.ToBool(u.Eq(K, u.Int(0)))
		if Z == False || Z == True {
			continue
		}
		ax := u.bdd.Imp(Z, u.bdd.Not(u.Atom(cmp)))
		for _, p := range u.AtomsOf(Z) {
			if p.Op != "eq" || !(isIntConst(p.Args[1], 0) || isIntConst(p.Args[0], 0)) || !u.bdd.Implies(Z, u.Atom(p)) {
				continue
			}
			// only the emptiness of a computed sum is private to the pre-test; the flags of the key
			// (len(list) == 0, ...) are observables of the rule in their own right
			sum := p.Args[0]
			if isIntConst(sum, 0) {
				sum = p.Args[1]
			}
			if !(sum.Op == "bin" && sum.Aux == "+") && !(sum.Op == "call" && strings.HasPrefix(sum.Aux, "math/bits.OnesCount")) {
				continue
			}
			inH := false
			for _, v := range u.bdd.Support(H) {
				if v == u.atomIx[p.key] {
					inH = true
				}
			}
			if !inH {
				continue
			}
			G := u.bdd.Cofactor(H, u.atomIx[p.key], false)
			if c.Check(u.bdd.And(H, ax) == u.bdd.And(G, ax), "C07.R1", "IsHigherPriority: zero-key pre-test agrees with the general path", ihp.Pos(),
				"under key == 0 => !(X < key) the pre-test changes nothing", "a pre-test on "+clip(u.Show(p), 100)+" answers differently from the comparison it short-cuts") {
				H = G
			}
		}
	}

	type keyAtom struct {
		atom   *E
		fSide  *E
		rSide  *E
		fFirst bool // atom is cmp(fSide, rSide); else cmp(rSide, fSide)
	}
	var fAtoms, rAtoms []*E
	var keys []keyAtom
	ok := true
	for _, at := range u.AtomsOf(H) {
		c.Atoms[at.key] = true
		mf, mr := mentions(at, fP), mentions(at, rP)
		switch {
		case mf && mr:
			if (at.Op != "lt" && at.Op != "eq") || len(at.Args) != 2 {
				c.Fail("C07.R1", "IsHigherPriority: atom "+u.Show(at), ihp.Pos(), "UNDECIDED: a predicate reads both operands and is not a comparison of two per-operand keys")
				ok = false
				continue
			}
			A, B := at.Args[0], at.Args[1]
			switch {
			case mentions(A, fP) && !mentions(A, rP) && mentions(B, rP) && !mentions(B, fP):
				keys = append(keys, keyAtom{at, A, B, true})
			case mentions(A, rP) && !mentions(A, fP) && mentions(B, fP) && !mentions(B, rP):
				keys = append(keys, keyAtom{at, B, A, false})
			default:
				// which terms are on the wrong side?
				var wrong []string
				for _, side := range []*E{A, B} {
					for _, t := range sumTerms(u, side) {
						if mentions(t, fP) && mentions(side, rP) && !mentions(t, rP) && countMention(u, side, rP) > countMention(u, side, fP) {
							wrong = append(wrong, u.Show(t))
						}
						if mentions(t, rP) && mentions(side, fP) && !mentions(t, fP) && countMention(u, side, fP) > countMention(u, side, rP) {
							wrong = append(wrong, u.Show(t))
						}
					}
				}
				c.Fail("C07.R1", "IsHigherPriority: key comparison "+clip(u.Show(at), dbgClip()), ihp.Pos(),
					"one side of the key comparison mixes both operands (term(s) read from the wrong rule: "+strings.Join(wrong, "; ")+"): the key of a rule depends on what it is compared with, so irreflexivity/transitivity fail")
				ok = false
			}
		case mf:
			fAtoms = append(fAtoms, at)
		case mr:
			rAtoms = append(rAtoms, at)
		default:
			c.Fail("C07.R1", "IsHigherPriority: atom "+u.Show(at), ihp.Pos(), "UNDECIDED: the result depends on something that is not a feature of either rule")
			ok = false
		}
	}
	// same observables
	{
		var fs, rs []string
		for _, x := range fAtoms {
			fs = append(fs, substAtomKey(u, x, swap))
		}
		for _, x := range rAtoms {
			rs = append(rs, x.key)
		}
		sort.Strings(fs)
		sort.Strings(rs)
		oa, ob := diffStrings(fs, rs)
		if len(oa)+len(ob) > 0 {
			c.Fail("C07.R1", "IsHigherPriority: same observables on both operands", ihp.Pos(),
				fmt.Sprintf("predicates read from one operand only: receiver-only(after f->r)=%v argument-only=%v", oa, ob))
			ok = false
		} else {
			c.OK("C07.R1", "IsHigherPriority: same observables on both operands", ihp.Pos(), fmt.Sprintf("%d predicates per operand", len(fAtoms)))
		}
	}
	// symmetric key
	var fKey *E
	for _, k := range keys {
		tf := termKeys(u, sumTermsSubst(u, k.fSide, swap))
		tr := termKeys(u, sumTerms(u, k.rSide))
		oa, ob := diffStrings(tf, tr)
		if len(oa)+len(ob) > 0 {
			c.Fail("C07.R1", "IsHigherPriority: key terms agree under f<->r", ihp.Pos(),
				fmt.Sprintf("the key of the receiver has term(s) %v that the key of the argument lacks, and the argument's key has %v that the receiver's lacks: a rule carrying such a modifier outranks itself / two rules outrank each other", oa, ob))
			ok = false
		} else {
			c.OK("C07.R1", "IsHigherPriority: key terms agree under f<->r", ihp.Pos(), fmt.Sprintf("%d additive terms on each side", len(tf)))
		}
		if fKey == nil {
			fKey = k.fSide
		} else if fKey != k.fSide {
			c.Fail("C07.R1", "IsHigherPriority: single key", ihp.Pos(), "UNDECIDED: more than one pair of computed keys is compared")
			ok = false
		}
	}
	if len(keys) == 0 {
		c.Notes = append(c.Notes, "IsHigherPriority compares no computed keys")
	}

	// order axioms by exhaustion
	nObs := len(fAtoms)
	if ok && nObs <= 10 {
		rIdx := map[string]int{}
		for i, x := range fAtoms {
			rIdx[substAtomKey(u, x, swap)] = i
		}
		fIdx := map[string]int{}
		for i, x := range fAtoms {
			fIdx[x.key] = i
		}
		keyAt := map[string]keyAtom{}
		for _, k := range keys {
			keyAt[k.atom.key] = k
		}
		type el struct {
			bits int
			key  int
		}
		var els []el
		nk := 3
		if len(keys) == 0 {
			nk = 1
		}
		for b := 0; b < 1<<nObs; b++ {
			for k := 0; k < nk; k++ {
				els = append(els, el{b, k})
			}
		}
		N := len(els)
		hi := make([][]bool, N)
		for i := range els {
			hi[i] = make([]bool, N)
			for j := range els {
				x, y := els[i], els[j]
				hi[i][j] = u.bdd.Eval(H, func(v int) bool {
					at := u.atoms[v]
					if ix, ok := fIdx[at.key]; ok {
						return x.bits&(1<<ix) != 0
					}
					if ix, ok := rIdx[at.key]; ok {
						return y.bits&(1<<ix) != 0
					}
					if k, ok := keyAt[at.key]; ok {
						l, r := x.key, y.key // cmp(fSide, rSide)
						if !k.fFirst {
							l, r = y.key, x.key
						}
						if at.Op == "lt" {
							return l < r
						}
						return l == r
					}
					return false
				})
				c.Paths++
			}
		}
		show := func(e el) string {
			var fs []string
			for i, x := range fAtoms {
				s := u.Show(x)
				if e.bits&(1<<i) == 0 {
					s = "!" + s
				}
				fs = append(fs, s)
			}
			return fmt.Sprintf("{%s; key=%d}", strings.Join(fs, ", "), e.key)
		}
		irr, asym, trans, itrans := "", "", "", ""
		for i := 0; i < N && irr == ""; i++ {
			if hi[i][i] {
				irr = "a>a for a=" + show(els[i])
			}
		}
		for i := 0; i < N && asym == ""; i++ {
			for j := 0; j < N && asym == ""; j++ {
				if hi[i][j] && hi[j][i] {
					asym = "a>b and b>a for a=" + show(els[i]) + " b=" + show(els[j])
				}
			}
		}
		for i := 0; i < N && (trans == "" || itrans == ""); i++ {
			for j := 0; j < N; j++ {
				for k := 0; k < N; k++ {
					if trans == "" && hi[i][j] && hi[j][k] && !hi[i][k] {
						trans = "a>b, b>c but not a>c for a=" + show(els[i]) + " b=" + show(els[j]) + " c=" + show(els[k])
					}
					if itrans == "" && !hi[i][j] && !hi[j][i] && !hi[j][k] && !hi[k][j] && (hi[i][k] || hi[k][i]) {
						itrans = "a~b, b~c but a,c comparable for a=" + show(els[i]) + " b=" + show(els[j]) + " c=" + show(els[k])
					}
				}
			}
		}
		c.Paths += N * N * N
		how := fmt.Sprintf("exhaustive over %d abstract rules (%d observables x %d key values), %d triples", N, nObs, nk, N*N*N)
		c.Check(irr == "", "C07.R1", "IsHigherPriority: irreflexive", ihp.Pos(), how, irr)
		c.Check(asym == "", "C07.R1", "IsHigherPriority: asymmetric", ihp.Pos(), how, asym)
		c.Check(trans == "", "C07.R1", "IsHigherPriority: transitive", ihp.Pos(), how, trans)
		c.Check(itrans == "", "C07.R1", "IsHigherPriority: incomparability transitive", ihp.Pos(), how, itrans)

		// ---- R2: documented order ----
		enT := types.Typ[types.Uint64]
		enabled := func(p *E) *E { return fieldOfParam(u, H, p, "enabledOptions") }
		mask := func(p *E, k int64) string {
			en := enabled(p)
			if en == nil {
				return ""
			}
			kc := u.ConstVal(constantInt(k), en.Typ)
			e := u.Eq(u.Bin(token.AND, en, kc, en.Typ), kc)
			if e.Op == "bool" {
				if sup := u.bdd.Support(e.B); len(sup) == 1 {
					return u.atoms[sup[0]].key
				}
			}
			return ""
		}
		_ = enT
		role := map[int]string{}
		unknown := ""
		for i, x := range fAtoms {
			switch {
			case x.Op == "field" && x.Aux == "Whitelist" && x.Args[0] == fP:
				role[i] = "W"
			case x.key == mask(fP, kImp):
				role[i] = "I"
			case x.key == mask(fP, kRed):
				role[i] = "R"
			case x.Op == "eq" && x.Args[0].Op == "len" && x.Args[0].Args[0].Op == "field" && x.Args[0].Args[0].Aux == "permittedDomains" && x.Args[0].Args[0].Args[0] == fP && isIntConst(x.Args[1], 0):
				role[i] = "G"
			default:
				unknown = u.Show(x)
			}
		}
		if unknown != "" {
			c.Fail("C07.R2", "IsHigherPriority: documented criteria", ihp.Pos(), "UNDECIDED: the comparison reads a predicate that is not one of the documented criteria (exception flag, $important, [$redirect], $domain-specific): "+unknown)
		} else {
			get := func(e el, r string) (bool, bool) {
				for i, rr := range role {
					if rr == r {
						return e.bits&(1<<i) != 0, true
					}
				}
				return false, false
			}
			_, hasR := get(el{}, "R")
			_, hasG := get(el{}, "G")
			_, hasW := get(el{}, "W")
			_, hasI := get(el{}, "I")
			bad := ""
			if !hasW || !hasI || !hasG {
				bad = fmt.Sprintf("a documented criterion is not read at all (exception flag read: %v, $important read: %v, domain-specific read: %v)", hasW, hasI, hasG)
			}
			spec := func(x, y el) bool {
				cls := func(e el) int {
					w, _ := get(e, "W")
					i, _ := get(e, "I")
					switch {
					case w && i:
						return 3
					case i:
						return 2
					case w:
						return 1
					}
					return 0
				}
				if cls(x) != cls(y) {
					return cls(x) > cls(y)
				}
				if hasR {
					rx, _ := get(x, "R")
					ry, _ := get(y, "R")
					if rx != ry {
						return rx
					}
				}
				gx, _ := get(x, "G")
				gy, _ := get(y, "G")
				if gx != gy {
					return !gx
				}
				return x.key > y.key
			}
			for i := 0; i < N && bad == ""; i++ {
				for j := 0; j < N && bad == ""; j++ {
					if hi[i][j] != spec(els[i], els[j]) {
						bad = fmt.Sprintf("IsHigherPriority(a,b)=%v but the documented order gives %v for a=%s b=%s", hi[i][j], !hi[i][j], show(els[i]), show(els[j]))
					}
				}
			}
			c.Check(bad == "", "C07.R2", "IsHigherPriority: documented criteria", ihp.Pos(),
				fmt.Sprintf("equals lexicographic (class, redirect:%v, specific, key) on all %d pairs", hasR, N*N), bad)
		}
	} else if ok {
		c.Fail("C07.R1", "IsHigherPriority: order axioms", ihp.Pos(), fmt.Sprintf("UNDECIDED: %d observables per operand is beyond the exhaustive bound", nObs))
	}

	// ---- R3: every modifier counts ----
	a.rule = "C07.R3"
	lo := a.method("rules", "NetworkRule", "loadOptions")
	if lo != nil {
		written := map[string]token.Pos{}
		for fn := range c.P.Reachable(lo) {
			if !c.P.IsLibFunc(fn) {
				continue
			}
			eachInstr(fn, func(_ *ssa.BasicBlock, in ssa.Instruction) {
				if st, ok := in.(*ssa.Store); ok {
					if n, f, ok := fieldOf(st.Addr); ok && namedIs(n, "rules", "NetworkRule") {
						if _, seen := written[f]; !seen {
							written[f] = st.Pos()
						}
					}
				}
			})
		}
		exempt := map[string]string{"DNSRewrite": "payload of the rule, not a restriction (documented exemption)"}
		var fields []string
		for f := range written {
			fields = append(fields, f)
		}
		sort.Strings(fields)
		for _, fld := range fields {
			key := "priority key covers modifier field NetworkRule." + fld
			if why, ex := exempt[fld]; ex {
				c.OK("C07.R3", key, written[fld], "exempt: "+why)
				continue
			}
			found := false
			if fKey != nil {
				found = u.Mentions(fKey, func(x *E) bool { return x.Op == "field" && x.Aux == fld && x.Args[0] == fP })
			}
			if !found {
				for _, x := range fAtoms {
					if u.Mentions(x, func(y *E) bool { return y.Op == "field" && y.Aux == fld && y.Args[0] == fP }) {
						found = true
					}
				}
			}
			c.Check(found, "C07.R3", key, written[fld], "read by the comparison",
				"the option loaders write this field but IsHigherPriority never reads it: adding that modifier does not make the rule higher")
		}
	}

	// ---- R4 / R5: selection sites ----
	selectionSites(c, "C07.R4", "C07.R5", ihp)
}

func isIntConst(e *E, n int64) bool {
	v, ok := e.IntVal()
	return ok && v == n
}

func clip(s string, n int) string {
	if len(s) > n {
		return s[:n] + "…"
	}
	return s
}

func countMention(u *U, e, p *E) int {
	n := 0
	seen := map[*E]bool{}
	var rec func(x *E)
	rec = func(x *E) {
		if x == nil || seen[x] {
			return
		}
		seen[x] = true
		if x.Op == "field" && len(x.Args) == 1 && x.Args[0] == p {
			n++
		}
		if x.Op == "bool" || x.Op == "ite" {
			for _, v := range u.bdd.Support(x.B) {
				rec(u.atoms[v])
			}
		}
		for _, a := range x.Args {
			rec(a)
		}
	}
	rec(e)
	return n
}

func sumTermsSubst(u *U, e *E, m map[string]*E) []*E {
	return sumTerms(u, u.Subst(e, m))
}

// fieldOfParam finds the expression field<name>(p) inside the atoms of f.
func fieldOfParam(u *U, f Ref, p *E, name string) *E {
	var out *E
	for _, at := range u.AtomsOf(f) {
		u.Mentions(at, func(x *E) bool {
			if x.Op == "field" && x.Aux == name && x.Args[0] == p {
				out = x
				return true
			}
			return false
		})
		if out != nil {
			return out
		}
	}
	return nil
}

// selectionSites checks every call site of IsHigherPriority in the library:
// orientation (ruleOri) and scan completeness (ruleScan).
func selectionSites(c *Ctx, ruleOri, ruleScan string, ihp *ssa.Function) {
	ihpName := calleeName(ihp)
	for _, fn := range c.P.AllLibFuncs() {
		// selections made directly or through a helper that is not part of the vocabulary
		if fn == ihp || c.P.IsNewHelper(fn) {
			continue
		}
		nDirect := 0
		for gf := range helperGroup(c.P, fn) {
			nDirect += len(callsTo(gf, ihp))
		}
		if nDirect == 0 {
			continue
		}
		c.Fn(FuncName(fn))
		g := NewGate(c.P)
		g.Inline = inlineOnly("(*rules.NetworkRule).isDocumentWhitelistRule", "(*rules.NetworkRule).IsOptionEnabled", "(*rules.NetworkRule).IsGeneric")
		s := g.Eval(fn)
		u := g.U
		loops := loopsOf(fn)
		nSeen := 0
		for ci := range s.Effects {
			cef := &s.Effects[ci]
			if cef.Kind != "call" || cef.Call.Aux != ihpName {
				continue
			}
			nSeen++
			site := cef.Ins
			call := cef.Call
			key := shortFn(fn) + ": selection by IsHigherPriority"
			if call == nil || call.Op != "call" || call.Aux != ihpName || len(call.Args) < 2 {
				c.Fail(ruleOri, key, site.Pos(), "UNDECIDED: call not evaluated")
				continue
			}
			cand, inc := call.Args[0], call.Args[1]
			atom := u.ToBool(call)
			guard := u.bdd.Or(u.ToBool(u.Eq(inc, u.mk("nil", "", inc.Typ))), atom)
			// the decision to replace reads the incumbent only through the nil test, identity and the relation itself:
			// any other test on the incumbent skips comparisons the relation would have decided
			readsIncumbent := func(cond Ref) string {
				for _, at := range u.AtomsOf(cond) {
					if at == call || (at.Op == "call" && at.Aux == ihpName) {
						continue
					}
					if at.Op == "eq" && ((at.Args[0] == inc && (at.Args[1].IsNil() || at.Args[1] == cand)) || (at.Args[1] == inc && (at.Args[0].IsNil() || at.Args[0] == cand))) {
						continue
					}
					if u.Mentions(at, func(x *E) bool { return x == inc }) {
						return u.Show(at)
					}
				}
				return ""
			}
			// (a) store of cand into the location inc was loaded from
			found := false
			for _, ef := range s.Effects {
				if ef.Kind != "store" || ef.Addr.Op != "faddr" {
					continue
				}
				lc, isLeaf := u.Leaves(ef.Val)[cand]
				if !isLeaf {
					continue
				}
				if inc.Op != "field" || inc.Aux != ef.Addr.Aux || inc.Args[0] != ef.Addr.Args[0] {
					continue
				}
				found = true
				for leaf := range u.Leaves(ef.Val) {
					if leaf != cand && leaf != inc {
						c.Fail(ruleOri, key+" -> "+ef.Addr.Aux, ef.Pos, "the incumbent is replaced by a value other than the candidate: "+clip(u.Show(leaf), 120))
					}
				}
				if inc.Op != "nil" {
					ri := readsIncumbent(u.bdd.And(ef.Cond, lc))
					c.Check(ri == "", ruleOri, key+" -> "+ef.Addr.Aux+": incumbent read only through the relation", ef.Pos,
						"replacement condition depends on the incumbent only via == nil, identity and IsHigherPriority",
						"whether the candidate replaces the incumbent also depends on "+clip(ri, 120)+": candidates the relation ranks above the incumbent are skipped, so the selected rule can be outranked by another candidate and depends on the order of the candidates")
				}
				c.Check(u.bdd.Implies(u.bdd.And(ef.Cond, lc), guard), ruleOri, key+" -> "+ef.Addr.Aux, ef.Pos,
					"the incumbent is overwritten only when it is nil or candidate.IsHigherPriority(incumbent)",
					"the incumbent is replaced on a path where it is neither nil nor outranked by the candidate: "+clip(u.ShowBool(u.bdd.And(ef.Cond, u.bdd.Not(guard))), 300))
			}
			// (b) loop-carried incumbent (φ at a loop header)
			if !found && inc.Op == "loopphi" {
				for _, l := range loops {
					for _, in := range l.Header.Instrs {
						ph, isPhi := in.(*ssa.Phi)
						if !isPhi || s.Env[ph] != inc {
							continue
						}
						for i, p := range l.Header.Preds {
							if !l.Blocks[p] {
								// the scan starts without an incumbent: a first element taken as it is would
								// bypass the conditions under which the scan admits candidates
								init := s.Env[ph.Edges[i]]
								isNil := init != nil && init.IsNil()
								if cv, isC := ph.Edges[i].(*ssa.Const); isC && cv.Value == nil {
									isNil = true
								}
								if init != nil && !isNil {
									okInit := true
									for leaf := range u.Leaves(init) {
										if !leaf.IsNil() {
											okInit = false
										}
									}
									isNil = okInit
								}
								c.Check(isNil, ruleOri, key+" -> loop-carried incumbent: the scan starts without an incumbent", site.Pos(), "initial incumbent nil",
									"the scan starts with "+clip(u.Show(init), 80)+" as the incumbent: that element was not subjected to the tests the scan applies to its candidates (rules with $stealth, $cookie, $csp are no candidates), so which rule is selected depends on which one is listed first")
								continue
							}
							next := s.Env[ph.Edges[i]]
							if next == nil {
								continue
							}
							for leaf, cond := range u.Leaves(next) {
								if leaf == inc {
									continue
								}
								found = true
								cnd := u.bdd.And(cond, s.RC[p])
								if leaf != cand {
									c.Fail(ruleOri, key+" -> loop-carried incumbent", site.Pos(), "the incumbent is replaced by a value other than the candidate: "+clip(u.Show(leaf), 120))
									continue
								}
								ri := readsIncumbent(cnd)
								c.Check(ri == "", ruleOri, key+" -> loop-carried incumbent: incumbent read only through the relation", site.Pos(),
									"replacement condition depends on the incumbent only via == nil, identity and IsHigherPriority",
									"whether the candidate replaces the incumbent also depends on "+clip(ri, 120)+": candidates the relation ranks above the incumbent are skipped")
								c.Check(u.bdd.Implies(cnd, guard), ruleOri, key+" -> loop-carried incumbent", site.Pos(),
									"the incumbent is replaced only when it is nil or candidate.IsHigherPriority(incumbent)",
									"the incumbent is replaced on a path where it is neither nil nor outranked by the candidate: "+clip(u.ShowBool(u.bdd.And(cnd, u.bdd.Not(guard))), 300))
							}
						}
					}
				}
			}
			if !found {
				c.Fail(ruleOri, key, site.Pos(), "UNDECIDED: no replacement of the incumbent (the argument of IsHigherPriority) by the candidate (its receiver) found — receiver and argument swapped, or an unrecognised selection shape")
			}
			// scan completeness
			b := topBlockOf(cef.Act, cef.Ins)
			l := innermostLoop(loops, b)
			inHelper := false
			if l == nil && cef.Act != nil {
				// the scan sits in a helper outside the vocabulary expanded into this function
				if l2, la := loopAround(s, cef.Act, cef.Ins); l2 != nil && la != s {
					l, inHelper = l2, true
				}
			}
			if l == nil {
				c.Fail(ruleScan, key+": scan", site.Pos(), "UNDECIDED: the selection is not inside a loop over the candidates")
				continue
			}
			ro := rangedOver(l)
			early := 0
			var bad []string
			for _, ex := range l.Exits {
				if ex[0] == l.Header {
					continue // exhaustion
				}
				early++
				if inHelper {
					bad = append(bad, "the scan in the helper can be left before the candidates are exhausted")
					continue
				}
				// every return reachable from this exit must return nil pointers
				for _, r := range s.Rets {
					if !reaches(ex[1], blockOfPos(fn, r.Pos)) {
						continue
					}
					ec := u.bdd.And(s.RC[ex[0]], r.Cond)
					if ec == False {
						continue
					}
					for _, v := range r.Vals {
						vv := u.EvalUnderCare(v, ec)
						if !(vv.IsNil()) {
							bad = append(bad, fmt.Sprintf("early exit at %s returns %s", c.P.Pos(r.Pos), clip(u.Show(vv), 80)))
						}
					}
				}
			}
			full := ro != nil && ro.Full
			if !full {
				bad = append(bad, "the loop does not provably range over the whole candidate slice")
			}
			c.Check(len(bad) == 0, ruleScan, key+": scan", l.Header.Instrs[0].Pos(),
				fmt.Sprintf("range over the whole slice; %d early exit(s), none returns a winner", early),
				strings.Join(bad, "; "))
		}
		if nSeen == 0 {
			c.Fail(ruleOri, shortFn(fn)+": selection by IsHigherPriority", fn.Pos(), "UNDECIDED: the function calls IsHigherPriority but the call was not evaluated")
		}
	}
}

// reaches reports whether block b is reachable from a.
func reaches(a, b *ssa.BasicBlock) bool {
	if a == nil || b == nil {
		return false
	}
	seen := map[*ssa.BasicBlock]bool{}
	var rec func(x *ssa.BasicBlock) bool
	rec = func(x *ssa.BasicBlock) bool {
		if x == b {
			return true
		}
		if seen[x] {
			return false
		}
		seen[x] = true
		for _, s := range x.Succs {
			if rec(s) {
				return true
			}
		}
		return false
	}
	return rec(a)
}

func blockOfPos(fn *ssa.Function, pos token.Pos) *ssa.BasicBlock {
	for _, b := range fn.Blocks {
		for _, in := range b.Instrs {
			if r, ok := in.(*ssa.Return); ok && r.Pos() == pos {
				return b
			}
		}
	}
	return nil
}

// EvalUnderCare simplifies e assuming care holds; if all leaves selected
// under care agree, that leaf is returned.
func (u *U) EvalUnderCare(e *E, care Ref) *E {
	if e.Op != "ite" {
		return e
	}
	var only *E
	n := 0
	for leaf, cond := range u.Leaves(e) {
		if u.bdd.And(cond, care) != False {
			only = leaf
			n++
		}
	}
	if n == 1 {
		return only
	}
	return e
}

// substAtomKey substitutes inside an atom and returns the key of the
// resulting atom (a substituted atom is re-canonicalised into a literal).
func substAtomKey(u *U, at *E, m map[string]*E) string {
	r := u.Subst(at, m)
	if r.Op == "bool" {
		if sup := u.bdd.Support(r.B); len(sup) == 1 && r.B == u.bdd.Var(sup[0]) {
			return u.atoms[sup[0]].key
		}
	}
	return r.key
}

// nonNegKey: a sum of bit counts, lengths, non-negative constants and selections among such.
func nonNegKey(u *U, e *E) bool {
	if v, ok := e.IntVal(); ok {
		return v >= 0
	}
	switch e.Op {
	case "len", "cap":
		return true
	case "call":
		return strings.HasPrefix(e.Aux, "math/bits.OnesCount")
	case "bin":
		if e.Aux == "+" {
			return nonNegKey(u, e.Args[0]) && nonNegKey(u, e.Args[1])
		}
	case "ite":
		return nonNegKey(u, e.Args[0]) && nonNegKey(u, e.Args[1])
	case "convert":
		return nonNegKey(u, e.Args[0])
	}
	return false
}

func dbgClip() int {
	if os.Getenv("UFCHECK_DEBUG_C07") != "" {
		return 6000
	}
	return 160
}
