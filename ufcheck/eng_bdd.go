package main

// A small reduced ordered BDD package.  Boolean values of the gated
// evaluator are BDDs over opaque atoms; tables are compared by enumerating
// valuations inside the checker.  No solver is involved.

import (
	"sort"
)

type Ref int32

const (
	False Ref = 0
	True  Ref = 1
)

type bddNode struct {
	v      int32
	lo, hi Ref
}

type BDD struct {
	nodes  []bddNode
	unique map[bddNode]Ref
	memo   map[[3]Ref]Ref
	rmemo  map[[2]Ref]Ref
}

func NewBDD() *BDD {
	b := &BDD{unique: map[bddNode]Ref{}, memo: map[[3]Ref]Ref{}, rmemo: map[[2]Ref]Ref{}}
	b.nodes = append(b.nodes, bddNode{v: 1 << 30}, bddNode{v: 1 << 30})
	return b
}

func (b *BDD) mk(v int32, lo, hi Ref) Ref {
	if lo == hi {
		return lo
	}
	n := bddNode{v, lo, hi}
	if r, ok := b.unique[n]; ok {
		return r
	}
	b.nodes = append(b.nodes, n)
	r := Ref(len(b.nodes) - 1)
	b.unique[n] = r
	return r
}

func (b *BDD) Var(i int) Ref { return b.mk(int32(i), False, True) }

func (b *BDD) top(f Ref) int32 { return b.nodes[f].v }

func (b *BDD) cof(f Ref, v int32) (Ref, Ref) {
	n := b.nodes[f]
	if n.v == v {
		return n.lo, n.hi
	}
	return f, f
}

// ITE computes if f then g else h.
func (b *BDD) ITE(f, g, h Ref) Ref {
	switch {
	case f == True:
		return g
	case f == False:
		return h
	case g == h:
		return g
	case g == True && h == False:
		return f
	}
	k := [3]Ref{f, g, h}
	if r, ok := b.memo[k]; ok {
		return r
	}
	v := b.top(f)
	if t := b.top(g); t < v {
		v = t
	}
	if t := b.top(h); t < v {
		v = t
	}
	f0, f1 := b.cof(f, v)
	g0, g1 := b.cof(g, v)
	h0, h1 := b.cof(h, v)
	r := b.mk(v, b.ITE(f0, g0, h0), b.ITE(f1, g1, h1))
	b.memo[k] = r
	return r
}

func (b *BDD) Not(f Ref) Ref    { return b.ITE(f, False, True) }
func (b *BDD) And(f, g Ref) Ref { return b.ITE(f, g, False) }
func (b *BDD) Or(f, g Ref) Ref  { return b.ITE(f, True, g) }
func (b *BDD) Xor(f, g Ref) Ref { return b.ITE(f, b.Not(g), g) }
func (b *BDD) Imp(f, g Ref) Ref { return b.ITE(f, g, True) }
func (b *BDD) Iff(f, g Ref) Ref { return b.ITE(f, g, b.Not(g)) }

// Implies reports whether f ⇒ g is valid.
func (b *BDD) Implies(f, g Ref) bool { return b.Imp(f, g) == True }

// Restrict simplifies f under the care set c (Coudert/Madre restrict):
// the result agrees with f wherever c holds.
func (b *BDD) Restrict(f, c Ref) Ref {
	if c == True || f == True || f == False {
		return f
	}
	if c == False {
		return f
	}
	k := [2]Ref{f, c}
	if r, ok := b.rmemo[k]; ok {
		return r
	}
	var r Ref
	vf, vc := b.top(f), b.top(c)
	switch {
	case vc < vf:
		c0, c1 := b.cof(c, vc)
		r = b.Restrict(f, b.Or(c0, c1))
	default:
		v := vf
		f0, f1 := b.cof(f, v)
		c0, c1 := b.cof(c, v)
		switch {
		case c0 == False:
			r = b.Restrict(f1, c1)
		case c1 == False:
			r = b.Restrict(f0, c0)
		default:
			r = b.mk(v, b.Restrict(f0, c0), b.Restrict(f1, c1))
		}
	}
	b.rmemo[k] = r
	return r
}

// Support returns the variables f depends on, ascending.
func (b *BDD) Support(f Ref) []int {
	seen := map[Ref]bool{}
	vs := map[int]bool{}
	var walk func(Ref)
	walk = func(r Ref) {
		if r <= True || seen[r] {
			return
		}
		seen[r] = true
		n := b.nodes[r]
		vs[int(n.v)] = true
		walk(n.lo)
		walk(n.hi)
	}
	walk(f)
	out := make([]int, 0, len(vs))
	for v := range vs {
		out = append(out, v)
	}
	sort.Ints(out)
	return out
}

// Eval evaluates f under a total assignment.
func (b *BDD) Eval(f Ref, asg func(v int) bool) bool {
	for f > True {
		n := b.nodes[f]
		if asg(int(n.v)) {
			f = n.hi
		} else {
			f = n.lo
		}
	}
	return f == True
}

// Cofactor fixes variable v to val.
func (b *BDD) Cofactor(f Ref, v int, val bool) Ref {
	x := b.Var(v)
	if val {
		return b.restrict1(f, int32(v), true, x)
	}
	return b.restrict1(f, int32(v), false, x)
}

func (b *BDD) restrict1(f Ref, v int32, val bool, _ Ref) Ref {
	memo := map[Ref]Ref{}
	var rec func(Ref) Ref
	rec = func(r Ref) Ref {
		if r <= True {
			return r
		}
		if m, ok := memo[r]; ok {
			return m
		}
		n := b.nodes[r]
		var out Ref
		switch {
		case n.v == v:
			if val {
				out = n.hi
			} else {
				out = n.lo
			}
		case n.v > v:
			out = r
		default:
			out = b.mk(n.v, rec(n.lo), rec(n.hi))
		}
		memo[r] = out
		return out
	}
	return rec(f)
}

// Exists quantifies variable v away.
func (b *BDD) Exists(f Ref, v int) Ref {
	return b.Or(b.Cofactor(f, v, false), b.Cofactor(f, v, true))
}

// Compose substitutes g for variable v in f.
func (b *BDD) Compose(f Ref, v int, g Ref) Ref {
	return b.ITE(g, b.Cofactor(f, v, true), b.Cofactor(f, v, false))
}

// AnySat returns one satisfying partial assignment (var -> value), or nil.
func (b *BDD) AnySat(f Ref) map[int]bool {
	if f == False {
		return nil
	}
	out := map[int]bool{}
	for f > True {
		n := b.nodes[f]
		if n.lo != False {
			out[int(n.v)] = false
			f = n.lo
		} else {
			out[int(n.v)] = true
			f = n.hi
		}
	}
	return out
}

// Cubes enumerates the paths to True as partial assignments.
func (b *BDD) Cubes(f Ref, fn func(map[int]bool)) {
	cur := map[int]bool{}
	var rec func(Ref)
	rec = func(r Ref) {
		if r == False {
			return
		}
		if r == True {
			cp := make(map[int]bool, len(cur))
			for k, v := range cur {
				cp[k] = v
			}
			fn(cp)
			return
		}
		n := b.nodes[r]
		cur[int(n.v)] = false
		rec(n.lo)
		cur[int(n.v)] = true
		rec(n.hi)
		delete(cur, int(n.v))
	}
	rec(f)
}
